"""C19 - signal helpers: peak search keeps isolated maxima; powers in float64; inputs untouched.

D1 peak filter    the candidate-position array is never overwritten inside the filter and no value that may be a negative
                  sentinel is used as a position or an index (an eliminated slot must never be read as a candidate).
D2 float64 powers every power / product of a raw array parameter in moving_operators and pattern_detection happens after the
                  parameter was replaced by its float64 cast (cast_array / _check_and_cast_args).
D3 inputs intact  no function of the four modules has an in-place effect on storage reachable from a caller's array (public
                  functions: their parameters; private helpers: resolved at their call sites).
"""
import ast

from .. import alias, kernels, kernelrules, astutil, inline
from ..model import norm, AnalysisError, root_name
from .c11 import emit

MODS = ['scared.signal_processing.moving_operators', 'scared.signal_processing.pattern_detection',
        'scared.signal_processing.peaks_detection', 'scared.signal_processing.base']


def d1(ctx, prog):
    f = prog.need_func('scared.signal_processing.peaks_detection', '_find_peaks_numba_core')
    pub = prog.need_func('scared.signal_processing.peaks_detection', 'find_peaks')
    calls = [c for c in ast.walk(pub.node) if isinstance(c, ast.Call) and isinstance(c.func, ast.Name) and c.func.id == f.name]
    if len(calls) != 1:
        raise AnalysisError('find_peaks does not call the filter exactly once')
    amap = kernels.call_arg_map(f, calls[0])
    # the positions parameter: the one bound to the array built from np.where(...) in find_peaks
    pos = None
    for p, a in amap.items():
        if isinstance(a, ast.Name):
            for n in ast.walk(pub.node):
                if isinstance(n, ast.Assign) and isinstance(n.targets[0], ast.Name) and n.targets[0].id == a.id \
                        and any(isinstance(c, ast.Call) and norm(c.func).split('.')[-1] in ('where', 'nonzero', 'flatnonzero') for c in ast.walk(n.value)):
                    pos = p
    if pos is None:
        raise AnalysisError('candidate positions parameter of the peak filter not identified')
    written = kernels.written_params(f)
    key = f'{f.key}::positions `{pos}`'
    if pos in written:
        st = written[pos][0]
        ctx.fail('C19-D1', f'{f.key}::{norm(st)[:100]}', f'the candidate positions array `{pos}` is overwritten inside the filter: later iterations '
                                                         f'read the overwritten slot as a position/index', f.where(st))
    else:
        ctx.ok('C19-D1', key, 'candidate positions are never overwritten: elimination is tracked elsewhere', f.where())
    res, arrays = kernelrules.sentinel_discipline(prog, f)
    emit(ctx, 'C19-D1', res)
    if not arrays:
        ctx.ok('C19-D1', f'{f.key}::sentinels', 'no negative sentinel is stored into any array of the filter')
    # the result is a selection of the candidates
    rets = [n for n in ast.walk(f.node) if isinstance(n, ast.Return)]
    good = all(isinstance(r.value, ast.Subscript) and root_name(r.value) == pos for r in rets) and rets
    ctx.check(bool(good), 'C19-D1', f'{f.key}::return', 'the filter does not return a selection of the candidate positions',
              'returns a selection of the candidate positions', f.where(rets[0]) if rets else f.where())
    # data values are compared, never modified
    data_p = [p for p, a in amap.items() if isinstance(a, ast.Name) and a.id in pub.params]
    for p in data_p:
        ctx.check(p not in written, 'C19-D1', f'{f.key}::data `{p}`', f'the filter writes the caller\'s array `{p}`', f'`{p}` is only read', f.where())


def cast_summary(prog, f):
    """does function f return (a tuple of) cast_array(...) results? -> list of booleans per returned element"""
    for n in ast.walk(f.node):
        if isinstance(n, ast.Return) and n.value is not None:
            elts = n.value.elts if isinstance(n.value, ast.Tuple) else [n.value]
            env = {}
            for st in astutil.stmts_of(f.node):
                if isinstance(st, ast.Assign) and len(st.targets) == 1 and isinstance(st.targets[0], ast.Name):
                    env[st.targets[0].id] = st.value
            out = []
            for e in elts:
                v = env.get(e.id) if isinstance(e, ast.Name) else e
                out.append(is_cast(prog, f, v))
            return out
    return []


def is_cast(prog, f, v):
    if not isinstance(v, ast.Call):
        return False
    d = prog.dotted(f.mod, v.func) if isinstance(v.func, (ast.Name, ast.Attribute)) else None
    if d and d.endswith('.cast_array'):
        dt = v.args[1] if len(v.args) > 1 else next((k.value for k in v.keywords if k.arg == 'dtype'), None)
        return dt is None or (isinstance(dt, ast.Constant) and dt.value == 'float64')
    if isinstance(v.func, ast.Attribute) and v.func.attr == 'astype' and v.args and isinstance(v.args[0], ast.Constant) \
            and v.args[0].value in ('float64', 'float'):
        return True
    return False


PRESERVING = ('pad', 'swapaxes', 'transpose', 'moveaxis', 'reshape', 'ascontiguousarray', 'copy', 'squeeze', 'ravel', 'flatten', 'take', 'roll', 'flip', 'concatenate',
              'stack', 'vstack', 'hstack', 'atleast_2d', 'expand_dims', 'cumsum', 'diff', 'negative', 'abs', 'absolute', 'sort')


def keeps_dtype(v, raw):
    """the value is an array with the dtype of one of the raw arrays: a slice / layout operation / padding / sum or difference of
    raw arrays (comparisons, where(), arg* and casts give arrays of another kind and are not followed)"""
    if isinstance(v, ast.Name):
        return v.id in raw
    if isinstance(v, ast.Subscript):
        return keeps_dtype(v.value, raw)
    if isinstance(v, ast.Attribute) and v.attr == 'T':
        return keeps_dtype(v.value, raw)
    if isinstance(v, ast.BinOp) and isinstance(v.op, (ast.Add, ast.Sub)):
        return keeps_dtype(v.left, raw) and keeps_dtype(v.right, raw)
    if isinstance(v, ast.Call) and norm(v.func).split('.')[-1] in PRESERVING and not any(k.arg == 'dtype' for k in v.keywords):
        if isinstance(v.func, ast.Attribute) and norm(v.func.value).split('.')[0] not in ('_np', 'np', 'numpy'):
            return keeps_dtype(v.func.value, raw)
        return bool(v.args) and keeps_dtype(v.args[0], raw)
    return False


def array_params(prog, f, depth=0):
    """parameters the function (or a validation helper it hands them to) checks to be numpy arrays"""
    out = set()
    for n in ast.walk(f.node):
        if isinstance(n, ast.Call) and norm(n.func) == 'isinstance' and len(n.args) == 2 and isinstance(n.args[0], ast.Name) \
                and 'ndarray' in norm(n.args[1]) and n.args[0].id in f.params:
            out.add(n.args[0].id)
        elif isinstance(n, ast.Call) and depth < 2 and isinstance(n.func, (ast.Name, ast.Attribute)):
            r = prog.resolve(f.mod, n.func)
            if r and r[0] == 'func':
                sub = array_params(prog, r[1], depth + 1)
                for i, a in enumerate(n.args):
                    if isinstance(a, ast.Name) and a.id in f.params and i < len(r[1].params) and r[1].params[i] in sub:
                        out.add(a.id)
    return out


def d2(ctx, prog):
    n_sinks = 0
    for modname in MODS[:3]:
        for f in prog.funcs_in(modname):
            if f.parent is not None or prog.numba_kind(f)[0]:
                continue
            if f.name.startswith('_') and any(f.key in getattr(inline.inlined(prog, g), 'inlined_helpers', []) for g in prog.funcs_in(modname) if g is not f):
                continue          # a private helper: judged inlined at its call sites
            f0 = f
            f = inline.inlined(prog, f, skip={'_moving_argument_check', '_check_and_cast_args'})
            raw = array_params(prog, f0)
            arrays = set(raw)
            pm_ = astutil.parents(f.node)

            def conditional_cast(st_):
                """a cast that only some paths take cleans nothing - unless the paths that skip it already hold float64 data
                (`if x.dtype != float64: x = x.astype(float64)`); `dtype.kind != 'f'` lets float32 / float16 through"""
                cur = pm_.get(st_)
                while cur is not None and cur is not f.node:
                    if isinstance(cur, (ast.If, ast.IfExp)):
                        t_ = norm(cur.test).replace(' ', '').replace('"', "'")
                        ok_ = ('.dtype!=' in t_ and 'float64' in t_) or ('.dtype==' in t_ and 'float64' in t_ and any(x is st_ for b in cur.orelse for x in ast.walk(b)))
                        if not ok_:
                            return True
                    elif isinstance(cur, (ast.For, ast.While, ast.Try)):
                        return True
                    cur = pm_.get(cur)
                return False
            for st in astutil.stmts_of(f.node):
                # sinks in this statement are judged against the state *before* it
                for n in ast.walk(st):
                    # differences of raw values (unsigned integers wrap on every decrease; the sign of the result is then wrong)
                    dn = None
                    if isinstance(n, ast.Call) and norm(n.func).split('.')[-1] in ('diff', 'ediff1d', 'gradient') and n.args \
                            and isinstance(n.args[0], ast.Name) and n.args[0].id in arrays:
                        dn = n.args[0].id
                    elif isinstance(n, ast.BinOp) and isinstance(n.op, ast.Sub) and all(
                            (isinstance(o, ast.Subscript) and isinstance(o.value, ast.Name) and o.value.id in arrays) or
                            (isinstance(o, ast.Name) and o.id in arrays) for o in (n.left, n.right)):
                        o = n.left
                        dn = (o.value.id if isinstance(o, ast.Subscript) else o.id)
                    if dn is not None:
                        n_sinks += 1
                        key = f'{f.key}::{norm(n)[:60]}'
                        if dn in raw:
                            ctx.fail('C19-D2', key, f'`{norm(n)[:60]}` takes differences of the raw parameter `{dn}` in its own dtype: unsigned integers wrap on every '
                                                    f'decrease (and narrow signed ones on large swings), so the sign of the slope is wrong', f.where(n))
                        else:
                            ctx.ok('C19-D2', key, 'difference taken after the float64 cast', f.where(n))
                    if isinstance(n, ast.Call) and norm(n.func).split('.')[-1] in ('cumsum', 'nancumsum', 'cumprod') and modname.endswith('moving_operators'):
                        src_ = n.args[0] if (n.args and norm(n.func).split('.')[0] in ('_np', 'np', 'numpy')) else (n.func.value if isinstance(n.func, ast.Attribute) else None)
                        if isinstance(src_, ast.Name) and src_.id in arrays:
                            n_sinks += 1
                            key = f'{f.key}::{norm(n)[:60]}'
                            if src_.id in raw:
                                ctx.fail('C19-D2', key, f'`{norm(n)[:60]}` accumulates the raw parameter `{src_.id}` in its own dtype: a float32 / float16 running sum over the whole '
                                                        f'axis loses the low-order digits the window difference needs (it is not cast to float64 first)', f.where(n))
                            else:
                                ctx.ok('C19-D2', key, 'running sum taken after the float64 cast', f.where(n))
                    if isinstance(n, ast.BinOp) and isinstance(n.op, (ast.Pow, ast.Mult)):
                        ops = [o for o in (n.left, n.right) if isinstance(o, ast.Name) and o.id in arrays]
                        if not ops:
                            continue
                        if isinstance(n.op, ast.Mult) and not all(isinstance(o, ast.Name) and o.id in arrays for o in (n.left, n.right)):
                            continue       # scalar * array etc.: promoted by the other operand
                        n_sinks += 1
                        bad = [o.id for o in ops if o.id in raw]
                        key = f'{f.key}::{norm(n)[:60]}'
                        if bad:
                            ctx.fail('C19-D2', key, f'`{norm(n)}` is computed on the raw parameter `{bad[0]}` (its own dtype: integer powers wrap, '
                                                    f'float32 loses precision) - it is not cast to float64 first', f.where(n))
                        else:
                            ctx.ok('C19-D2', key, 'operand was replaced by its float64 cast before the power/product', f.where(n))
                if isinstance(st, ast.Assign) and len(st.targets) == 1 and isinstance(st.targets[0], ast.Name) and st.targets[0].id not in f0.params:
                    # locals derived from the arrays: a float64 cast gives a clean array, anything else computed from a raw array is raw
                    tg_ = st.targets[0].id
                    reads_ = astutil.value_names_read(st.value)
                    if is_cast(prog, f, st.value) and not conditional_cast(st):
                        arrays.add(tg_)
                        raw.discard(tg_)
                    elif is_cast(prog, f, st.value):
                        arrays.add(tg_)            # stays raw if it was: some paths skip the cast
                    elif keeps_dtype(st.value, raw):
                        arrays.add(tg_)
                        raw.add(tg_)
                    elif reads_ & arrays and isinstance(st.value, (ast.Call, ast.Subscript, ast.BinOp)):
                        arrays.add(tg_)
                        raw.discard(tg_)
                if isinstance(st, ast.Assign):
                    tg = st.targets[0]
                    if isinstance(tg, ast.Name) and tg.id in raw and is_cast(prog, f, st.value) and not conditional_cast(st):
                        v = st.value
                        src = v.func.value if isinstance(v.func, ast.Attribute) and v.func.attr == 'astype' else (v.args[0] if v.args else None)
                        if isinstance(src, ast.Name) and src.id == tg.id:
                            raw.discard(tg.id)
                    elif isinstance(tg, ast.Tuple) and isinstance(st.value, ast.Call):
                        r = prog.resolve(f.mod, st.value.func) if isinstance(st.value.func, (ast.Name, ast.Attribute)) else None
                        if r and r[0] == 'func':
                            cs = cast_summary(prog, r[1])
                            for t, ok, a in zip(tg.elts, cs, st.value.args):
                                if ok and isinstance(t, ast.Name) and isinstance(a, ast.Name) and a.id == t.id:
                                    raw.discard(t.id)
    return n_sinks


def d3(ctx, prog):
    eff = alias.Effects(prog)
    n = 0
    callsites = {}
    for f in prog.funcs:
        for c in ast.walk(f.node):
            if isinstance(c, ast.Call) and isinstance(c.func, (ast.Name, ast.Attribute)):
                r = prog.resolve(f.mod, c.func)
                if r and r[0] == 'func':
                    callsites.setdefault(r[1].key, []).append((f, c))
    for modname in MODS:
        for f in prog.funcs_in(modname):
            if f.parent is not None:
                continue
            for st, desc, cl in eff.writes(f):
                n += 1
                key = f'{f.key}::{norm(st)[:100]}'
                if cl == alias.FRESH:
                    ctx.ok('C19-D3', key, f'{desc}: storage allocated in this call', f.where(st))
                    continue
                if cl == alias.UNKNOWN or cl is None:
                    ctx.undecided('C19-D3', key, f'{desc}: cannot classify the written storage', f.where(st))
                    continue
                roots = {r for r in cl[1]}
                params = {r[6:] for r in roots if r.startswith('param:')}
                if f.name.startswith('_') and params and not (roots - {'param:' + p for p in params}):
                    # private helper: judge at its call sites
                    verdict = 'ok'
                    for caller, call in callsites.get(f.key, []):
                        amap = kernels.call_arg_map(f, call)
                        env = alias.local_env(prog, caller, eff.summ)
                        c = alias.Classifier(prog, caller, env, eff.summ)
                        for p in params:
                            a = amap.get(p)
                            if a is not None and c.classify(a) != alias.FRESH:
                                verdict = f'{caller.qualname} passes `{norm(a)[:30]}` ({c.classify(a)})'
                    if verdict == 'ok' and callsites.get(f.key):
                        ctx.ok('C19-D3', key, f'{desc}: private helper, every call site passes storage allocated by the caller itself', f.where(st))
                    elif not callsites.get(f.key):
                        ctx.undecided('C19-D3', key, f'{desc}: private helper without a call site', f.where(st))
                    else:
                        ctx.fail('C19-D3', key, f'{desc}: reaches a caller-owned array ({verdict})', f.where(st))
                else:
                    ctx.fail('C19-D3', key, f'{desc}: modifies storage the caller passed in ({sorted(roots)})', f.where(st))
    return n


AXIS_OPS = {'sum', 'nansum', 'mean', 'nanmean', 'cumsum', 'cumprod', 'std', 'nanstd', 'var', 'nanvar', 'max', 'min', 'nanmax', 'nanmin', 'amax', 'amin', 'argmax', 'argmin',
            'diff', 'median', 'sort', 'argsort', 'roll', 'flip', 'rfft', 'fft', 'ifft', 'irfft', 'prod', 'all', 'any', 'ptp', 'average', 'gradient', 'lfilter', 'convolve'}
MOVERS = {'swapaxes', 'moveaxis'}


def d4(ctx, prog):
    """axis-parameter discipline: in a function that takes an `axis` parameter, an operation that works along one axis of the
    data either receives that parameter, or works along a literal axis k of an array into which the requested axis was moved
    (`swapaxes(data, k, axis)` / `moveaxis(data, axis, k)`).  A literal axis on the data as given means the operation runs along
    that fixed axis whatever the caller asked for."""
    n = 0
    for modname in MODS + ['scared.signal_processing.filters', 'scared.signal_processing.frequency_analysis']:
        if modname not in prog.mods:
            continue
        for f in prog.funcs_in(modname):
            if f.parent is not None or 'axis' not in f.params or prog.numba_kind(f)[0]:
                continue
            g = inline.inlined(prog, f, skip={'_moving_argument_check', '_check_and_cast_args', '_butterworth_args_check'})
            dparam = next((p for p in g.params if p not in ('self', 'axis')), None)
            if dparam is None:
                continue
            state = {dparam: 'given'}      # name -> 'given' | ('moved', k) | None
            for st in astutil.stmts_of(g.node):
                # judge uses in this statement first
                for c in ast.walk(st):
                    if not isinstance(c, ast.Call):
                        continue
                    name = norm(c.func).split('.')[-1]
                    if name not in AXIS_OPS:
                        continue
                    if isinstance(c.func, ast.Attribute) and not norm(c.func.value) in ('_np', 'np', 'numpy', '_np.fft', '_signal', 'signal'):
                        arr, rest = c.func.value, c.args
                    else:
                        arr, rest = (c.args[-1] if name == 'lfilter' and len(c.args) >= 3 else (c.args[0] if c.args else None)), c.args[1:]
                    names = [x.id for x in ast.walk(arr) if isinstance(x, ast.Name)] if arr is not None else []
                    sts = [state.get(x) for x in names if x in state]
                    if not sts:
                        continue
                    ax = next((k.value for k in c.keywords if k.arg == 'axis'), None)
                    if ax is None and name == 'lfilter' and len(c.args) >= 4:
                        ax = c.args[3]
                    if ax is None:
                        continue          # whole-array operation or default axis: not an axis-wise operation on a chosen axis
                    n += 1
                    key = f'{f.key}::{norm(c)[:80]}'
                    lit = astutil.const_value_(ax)
                    if norm(ax) == 'axis':
                        if all(s_ == 'given' for s_ in sts):
                            ctx.ok('C19-D4', key, 'works along the requested axis', f.where(c))
                        else:
                            ctx.undecided('C19-D4', key, 'the axis parameter is applied to an array whose axes were already permuted', f.where(c))
                    elif isinstance(lit, int):
                        if all(isinstance(s_, tuple) and s_[1] == lit for s_ in sts):
                            ctx.ok('C19-D4', key, f'works along axis {lit}, where the requested axis was moved', f.where(c))
                        elif any(s_ == 'given' for s_ in sts):
                            ctx.fail('C19-D4', key, f'`{norm(c)[:70]}` works along the fixed axis {lit} of the data as given: the result ignores the `axis` argument (wrong for any other axis of n-D data)', f.where(c))
                        else:
                            ctx.undecided('C19-D4', key, f'literal axis {lit} on an array whose layout is not tracked', f.where(c))
                # then the effect of the statement on the layout states
                if isinstance(st, ast.Assign) and len(st.targets) == 1 and isinstance(st.targets[0], ast.Name):
                    v = st.value
                    tgt = st.targets[0].id
                    new = None
                    if isinstance(v, ast.Call) and norm(v.func).split('.')[-1] in MOVERS:
                        args = list(v.args)
                        arr = v.func.value if isinstance(v.func, ast.Attribute) and not norm(v.func.value) in ('_np', 'np', 'numpy') else (args.pop(0) if args else None)
                        src = [state.get(x.id) for x in ast.walk(arr) if isinstance(x, ast.Name) and x.id in state] if arr is not None else []
                        if src and len(args) == 2:
                            a_, b_ = args
                            mv = norm(v.func).split('.')[-1]
                            la, lb = astutil.const_value_(a_), astutil.const_value_(b_)
                            if all(s_ == 'given' for s_ in src):
                                if mv == 'swapaxes' and norm(b_) == 'axis' and isinstance(la, int):
                                    new = ('moved', la)
                                elif mv == 'swapaxes' and norm(a_) == 'axis' and isinstance(lb, int):
                                    new = ('moved', lb)
                                elif mv == 'moveaxis' and norm(a_) == 'axis' and isinstance(lb, int):
                                    new = ('moved', lb)
                            elif all(isinstance(s_, tuple) for s_ in src):
                                k_ = src[0][1]
                                if (mv == 'swapaxes' and {norm(a_), norm(b_)} == {'axis', str(k_)}) or (mv == 'moveaxis' and norm(b_) == 'axis' and la == k_):
                                    new = 'given'
                        state[tgt] = new
                    else:
                        src = [state.get(x.id) for x in ast.walk(v) if isinstance(x, ast.Name) and x.id in state]
                        src = [s_ for s_ in src if s_ is not None]
                        is_red = isinstance(v, ast.Call) and norm(v.func).split('.')[-1] in AXIS_OPS and norm(v.func).split('.')[-1] not in ('cumsum', 'cumprod', 'roll', 'flip', 'sort', 'diff', 'lfilter')
                        if src and len(set(map(str, src))) == 1 and not is_red:
                            state[tgt] = src[0]
                        elif tgt in state:
                            state[tgt] = None
    return n


def d5(ctx, prog):
    """find_width: the bounding samples selected for the gap search are, for Direction.POSITIVE, those at or below the threshold and,
    for Direction.NEGATIVE, those at or above it - so that the runs in between are *strictly* beyond the threshold.  The selection
    condition (locals expanded) is evaluated for both directions x (sample below / on / above the threshold) x threshold sign."""
    PD = 'scared.signal_processing.peaks_detection'
    f = prog.need_func(PD, 'find_width')
    from .. import enumtab
    dirs = {}
    dci = prog.need_class(PD, 'Direction')
    for nm, v in dci.class_assigns.items():
        from ..model import const_value
        c = const_value(v)
        if isinstance(c, int):
            dirs[nm] = c
    if set(dirs) != {'POSITIVE', 'NEGATIVE'}:
        raise AnalysisError('Direction members changed')
    defs = astutil.local_defs(f.node)
    wh = [c for c in ast.walk(f.node) if isinstance(c, ast.Call) and norm(c.func).split('.')[-1] in ('where', 'nonzero', 'flatnonzero') and c.args]
    cond = None
    for c in wh:
        e = astutil.expand_locals(c.args[0], defs)
        names = astutil.names_read(e)
        if 'data' in names and 'threshold' in names:
            cond = (c, e)
            break
    key = f'{f.key}::bounding samples'
    if cond is None:
        ctx.undecided('C19-D5', key, 'the selection of the bounding samples (a condition on data and threshold) was not found', f.where())
        return 0

    class U(Exception):
        pass

    def ev(e, env):
        if isinstance(e, ast.Constant):
            return e.value
        if isinstance(e, ast.Name):
            if e.id in env:
                return env[e.id]
            raise U(f'name {e.id}')
        if isinstance(e, ast.Attribute):
            t = norm(e)
            if t in env:
                return env[t]
            if isinstance(e.value, ast.Name) and e.value.id == 'Direction' and e.attr in dirs:
                return ('DIR', e.attr)
            raise U(f'attribute {t}')
        if isinstance(e, ast.UnaryOp):
            v = ev(e.operand, env)
            if isinstance(e.op, (ast.Invert, ast.Not)) and isinstance(v, bool):
                return not v
            if isinstance(e.op, ast.USub) and not isinstance(v, bool):
                return -v
            raise U('unary operator')
        if isinstance(e, ast.BinOp) and isinstance(e.op, (ast.Mult, ast.Sub, ast.Add)):
            l, r = ev(e.left, env), ev(e.right, env)
            if isinstance(l, tuple) or isinstance(r, tuple):
                raise U('arithmetic on a direction')
            return l * r if isinstance(e.op, ast.Mult) else (l - r if isinstance(e.op, ast.Sub) else l + r)
        if isinstance(e, ast.Compare) and len(e.ops) == 1:
            import operator
            l, r = ev(e.left, env), ev(e.comparators[0], env)
            ops = {ast.Eq: operator.eq, ast.NotEq: operator.ne, ast.Lt: operator.lt, ast.LtE: operator.le, ast.Gt: operator.gt, ast.GtE: operator.ge, ast.Is: operator.eq, ast.IsNot: operator.ne}
            if type(e.ops[0]) in ops:
                return bool(ops[type(e.ops[0])](l, r))
        if isinstance(e, ast.IfExp):
            return ev(e.body if ev(e.test, env) else e.orelse, env)
        if isinstance(e, ast.BoolOp):
            vs = [ev(v, env) for v in e.values]
            return all(vs) if isinstance(e.op, ast.And) else any(vs)
        if isinstance(e, ast.Call) and norm(e.func).split('.')[-1] in ('logical_not', 'invert') and len(e.args) == 1:
            return not ev(e.args[0], env)
        if isinstance(e, ast.Call) and norm(e.func).split('.')[-1] in ('logical_and', 'bitwise_and', 'logical_or', 'bitwise_or') and len(e.args) == 2:
            a, b = ev(e.args[0], env), ev(e.args[1], env)
            return (a and b) if 'and' in norm(e.func) else (a or b)
        raise U(f'expression `{norm(e)[:40]}`')
    bad = []
    n = 0
    try:
        for dname, dval in dirs.items():
            for thr in (-5, 0, 5):
                for rel in (-1, 0, 1):
                    n += 1
                    env = {'data': thr + rel, 'threshold': thr, 'direction': ('DIR', dname), 'direction.value': dval, 'sign': dval}
                    got = ev(cond[1], env)
                    want = rel <= 0 if dname == 'POSITIVE' else rel >= 0
                    if bool(got) != want:
                        where_ = {-1: 'below', 0: 'exactly on', 1: 'above'}[rel]
                        bad.append(f'Direction.{dname}, threshold {thr}: a sample {where_} the threshold is {"" if got else "not "}taken as a bounding sample')
    except U as e:
        ctx.undecided('C19-D5', key, f'selection condition `{norm(cond[1])[:70]}` not evaluable: {e}', f.where(cond[0]))
        return 0
    ctx.check(not bad, 'C19-D5', key, f'{bad[0] if bad else ""}: the runs returned are then not the maximal runs strictly beyond the threshold ({len(bad)} of {n} cases differ)',
              f'`{norm(cond[1])[:60]}`: POSITIVE brackets with samples <= threshold, NEGATIVE with samples >= threshold ({n} cases)', f.where(cond[0]))
    return n


def d6(ctx, prog):
    """window statistics as functions of a symbolic window (sa.ratfun, algebraic value numbering): with one window x_0..x_2 (and a
    pattern y_0..y_2) and `moving_sum` / `moving_mean` / `correlate(valid)` read as the window sum / mean / dot product,
       moving_var = E[(x-m)^2]          moving_std = sqrt(var)          moving_skew = E[(x-m)^3] / var^(3/2)
       moving_kurtosis = E[(x-m)^4] / var^2 - 3
       correlation = Pearson r(x, y)    distance = sqrt(sum (x-y)^2)    bcdc = sqrt(var(x-y)) / sqrt(var(x+y))
    each compared with what the function computes by cross-multiplication of polynomial normal forms of the squares, plus the sign
    of the leading term.  (|.| under a square root is read as the identity: the reference value is a sum of squares.)"""
    from .. import ratfun as rf
    Poly, RF = rf.Poly, rf.RF
    K = 3
    xs = [Poly.sym(f'x{i}') for i in range(K)]
    ys = [Poly.sym(f'y{i}') for i in range(K)]
    kc = Poly.const(K)
    one = Poly.const(1)

    def mean(ps):
        out = ps[0]
        for p_ in ps[1:]:
            out = out + p_
        return RF(out, kc)

    def central(k):
        m = mean(xs)
        tot = RF(Poly.const(0))
        for x in xs:
            d = RF(x).add(m, -1)
            t = RF(one)
            for _ in range(k):
                t = t.mul(d)
            tot = tot.add(t)
        return tot.mul(RF(kc), -1)
    var = central(2)
    sq = rf.Eval({}).sqrt
    refs = {}
    refs['moving_var'] = (var, None)
    refs['moving_std'] = (sq(var), None)
    refs['moving_skew'] = (central(3).mul(var.mul(sq(var)), -1), 'x0')
    refs['moving_kurtosis'] = (central(4).mul(var.mul(var), -1).add(RF(Poly.const(3)), -1), None)
    mx, my = mean(xs), mean(ys)
    cov = RF(Poly.const(0))
    vx = RF(Poly.const(0))
    vy = RF(Poly.const(0))
    dist2 = RF(Poly.const(0))
    for x, y in zip(xs, ys):
        dx, dy = RF(x).add(mx, -1), RF(y).add(my, -1)
        cov, vx, vy = cov.add(dx.mul(dy)), vx.add(dx.mul(dx)), vy.add(dy.mul(dy))
        dist2 = dist2.add(RF(x - y).mul(RF(x - y)))
    refs['correlation'] = (cov.mul(sq(vx).mul(sq(vy)), -1), 'x0')

    def var_of(ps):
        m = mean(ps)
        tot = RF(Poly.const(0))
        for p_ in ps:
            d = RF(p_).add(m, -1)
            tot = tot.add(d.mul(d))
        return tot.mul(RF(kc), -1)
    refs['distance'] = (sq(dist2), None)
    refs['bcdc'] = (sq(var_of([x - y for x, y in zip(xs, ys)])).mul(sq(var_of([x + y for x, y in zip(xs, ys)])), -1), None)

    from .. import symtensor
    np = symtensor.np
    if np is None:
        ctx.undecided('C19-D6', 'scared.signal_processing::formulas', 'numpy is not available to the analysis interpreter')
        return 0
    Q = rf.Q

    def vec(prefix):
        v = np.empty(K, dtype=object)
        for i in range(K):
            v[i] = Q.sym(f'{prefix}{i}')
        return v

    def total(a):
        return a.sum() if isinstance(a, np.ndarray) else a
    summaries = {
        'moving_sum': lambda a, k: total(a[0] if a else k['data']),
        'moving_mean': lambda a, k: total(a[0] if a else k['data']) / K,
        'correlate': lambda a, k: (a[0] * a[1]).sum(),
        'convolve': lambda a, k: (a[0] * a[1][::-1]).sum(),
        'abs': lambda a, k: a[0], 'absolute': lambda a, k: a[0], 'fabs': lambda a, k: a[0],          # |.| of a sum of squares
        'cast_array': lambda a, k: a[0] if a else k['array'],
        '_check_and_cast_args': lambda a, k: tuple(a) if a else (k['trace'], k['pattern']),
        '_moving_argument_check': lambda a, k: None,
    }
    pts = [{'x0': 1, 'x1': 2, 'x2': 5, 'y0': 1, 'y1': 3, 'y2': 8}, {'x0': 7, 'x1': 2, 'x2': 3, 'y0': 2, 'y1': 9, 'y2': 4}, {'x0': 1, 'x1': 9, 'x2': 2, 'y0': 5, 'y1': 1, 'y2': 2}]
    n = 0
    for modname, names in (('scared.signal_processing.moving_operators', ('moving_var', 'moving_std', 'moving_skew', 'moving_kurtosis')),
                           ('scared.signal_processing.pattern_detection', ('correlation', 'distance', 'bcdc'))):
        for name in names:
            f = prog.need_func(modname, name)
            key = f'{f.key}::formula'
            n += 1
            ref, lead = refs[name]
            te = symtensor.TensorEval(prog, None, {})
            te.summaries = dict(summaries)
            bind = {f.params[0]: vec('x')}
            if modname.endswith('pattern_detection'):
                bind[f.params[1]] = vec('y')
            else:
                bind[f.params[1]] = K
                if len(f.params) > 2:
                    bind[f.params[2]] = -1
            try:
                v = te.run(f, bind)
                if isinstance(v, np.ndarray):
                    if v.size != 1:
                        raise rf.Unknown('the window axis is not reduced')
                    v = v.reshape(-1)[0]
                if not isinstance(v, Q):
                    raise rf.Unknown('no symbolic value returned')
                ok, why = rf.same_function(v.rf, ref, pts)
                ctx.check(ok, 'C19-D6', key, f'what {name} computes for a window is not its definition: {why}', f'{name} equals its windowed definition as a function of the window samples (normal forms)', f.where())
            except rf.Unknown as e:
                ctx.undecided('C19-D6', key, f'formula not derivable: {e}', f.where())
    return n


def d7(ctx, prog):
    """moving_sum on symbolic signals (sa.symtensor): for a 1-D signal of 5 samples, a 2 x 4 and a 2 x 3 x 3 array, every window size and axis, the
    value returned must hold exactly the sums of the windows of consecutive samples along the axis (window 1: the samples
    themselves); `pad` is read as "zeros of the target shape with the array placed at the offsets", `cast_array` as the identity."""
    from .. import symtensor, ratfun
    f = prog.need_func('scared.signal_processing.moving_operators', 'moving_sum')
    key = f'{f.key}::window sums'
    np = symtensor.np
    if np is None:
        ctx.undecided('C19-D7', key, 'numpy is not available to the analysis interpreter', f.where())
        return 0

    def pad(args, kw):
        arr, shape = args[0], args[1]
        offs = args[2] if len(args) > 2 else kw.get('offsets')
        out = np.empty(tuple(int(x) for x in shape), dtype=object)
        out[...] = ratfun.Q.const(0)
        sl = tuple(slice(int(o), int(o) + d) for o, d in zip(offs if offs is not None else [0] * arr.ndim, arr.shape))
        out[sl] = arr
        return out
    n = 0
    bad = None
    try:
        for shape in ((5,), (2, 4), (2, 3, 3)):
            data = np.empty(shape, dtype=object)
            for idx in np.ndindex(*shape):
                data[idx] = ratfun.Q.sym('x' + ''.join(map(str, idx)))
            for axis in range(-len(shape), len(shape)):
                L = shape[axis]
                for w in range(1, L + 1):
                    te = symtensor.TensorEval(prog, None, {})
                    te.summaries = {'pad': pad, 'cast_array': lambda a, k: a[0]}
                    got = te.run(f, {f.params[0]: data.copy(), f.params[1]: w, f.params[2]: axis})
                    n += 1
                    moved = np.moveaxis(data, axis, -1)
                    want = np.empty(moved.shape[:-1] + (L - w + 1,), dtype=object)
                    for idx in np.ndindex(*want.shape):
                        tot = ratfun.Q.const(0)
                        for k in range(w):
                            tot = tot + moved[idx[:-1] + (idx[-1] + k,)]
                        want[idx] = tot
                    want = np.moveaxis(want, -1, axis)
                    if not isinstance(got, np.ndarray) or got.shape != want.shape:
                        bad = bad or f'shape {shape}, window {w}, axis {axis}: result of shape {getattr(got, "shape", None)}, expected {want.shape}'
                        continue
                    for idx in np.ndindex(*want.shape):
                        g_ = got[idx]
                        g_ = g_ if isinstance(g_, ratfun.Q) else ratfun.Q.lift(g_)
                        if not g_.same(want[idx]) and bad is None:
                            bad = f'shape {shape}, window {w}, axis {axis}: entry {idx} is not the sum of the {w} samples starting there along the axis'
        ctx.check(bad is None, 'C19-D7', key, f'{bad}', f'{n} (shape, axis, window) cases: every entry is the sum of its window', f.where(), cases=n)
    except ratfun.Unknown as e:
        ctx.undecided('C19-D7', key, f'moving_sum not evaluable: {e}', f.where())
    return n


def d8(ctx, prog):
    """functions that touch the samples only through comparisons, decided over the finite set of orderings (sa.symtensor in numeric
    mode): every signal of length 0..L over the values {0, 1, 2} (threshold 1: below / on / beyond), both directions and the
    width-bound configurations for find_width; every signal of length 1..L over {0, 1, 2, 3} and distances 0..3 for find_peaks.
      find_width   = the maximal runs strictly beyond the threshold that do not touch either end of the signal and satisfy the
                     width bounds, each as [first index, index after the last], in order;
      find_peaks   : every returned index is a local maximum (plateau points included) not lower than the height; two returned
                     indexes are at least min_peak_distance apart; every dropped candidate has another candidate closer than
                     min_peak_distance whose value is at least as large."""
    from .. import symtensor, ratfun
    import itertools
    PD = 'scared.signal_processing.peaks_detection'
    np = symtensor.np
    if np is None:
        ctx.undecided('C19-D8', f'{PD}::orderings', 'numpy is not available to the analysis interpreter')
        return 0
    L = 6 if ctx.tier == 'thorough' else 4
    n = 0
    fw = prog.need_func(PD, 'find_width')
    key = f'{fw.key}::runs (all orderings)'
    dirs = {}
    for nm, v in prog.need_class(PD, 'Direction').class_assigns.items():
        from ..model import const_value
        if isinstance(const_value(v), int):
            dirs[nm] = const_value(v)
    bad = None
    try:
        configs = [(1, None, None), (2, None, None), (1, 2, None), (2, 3, None), (2, None, 1), (3, None, 1)]
        for length in range(0, L + 3):
            for vals in itertools.product((0, 1, 2) if length <= L else (0, 2), repeat=length):
                data = np.array(vals, dtype=np.int64)
                for dname, dval in dirs.items():
                    beyond = [(v > 1) if dname == 'POSITIVE' else (v < 1) for v in vals]
                    runs = []
                    i = 0
                    while i < length:
                        if beyond[i]:
                            j = i
                            while j < length and beyond[j]:
                                j += 1
                            if i > 0 and j < length:
                                runs.append((i, j))
                            i = j
                        else:
                            i += 1
                    for mn, mx, dl in configs:
                        if mx is not None:
                            want = [r for r in runs if mn <= r[1] - r[0] <= mx]
                        elif dl is not None:
                            want = [r for r in runs if mn - dl <= r[1] - r[0] <= mn + dl]
                        else:
                            want = [r for r in runs if r[1] - r[0] >= mn]
                        te = symtensor.TensorEval(prog, None, {'direction.value': dval, 'direction': ('DIR', dname), f'Direction.{dname}': ('DIR', dname)})
                        te.numeric = True
                        te.summaries = {'_check_find_width_args': lambda a, k: None, '_check_data': lambda a, k: None}
                        n += 1
                        try:
                            got = te.run(fw, {'data': data, 'direction': ('DIR', dname), 'threshold': 1, 'min_width': mn, 'max_width': mx, 'delta': dl})
                        except symtensor.Raised as e:
                            got = f'raises {e.kind}'
                        except (IndexError, ValueError) as e:
                            got = f'raises {type(e).__name__}'
                        gl = [tuple(int(x) for x in row) for row in np.asarray(got).reshape(-1, 2)] if isinstance(got, np.ndarray) else got
                        if gl != want and bad is None:
                            bad = f'signal {list(vals)}, threshold 1, Direction.{dname}, min_width={mn}, max_width={mx}, delta={dl}: returns {gl}, the bracketed runs strictly beyond the threshold within the bounds are {want}'
        ctx.check(bad is None, 'C19-D8', key, f'{bad}', f'{n} (signal ordering, direction, bounds) cases up to length {L}: exactly the bracketed runs strictly beyond the threshold, as [first, after last]', fw.where(), cases=n)
    except ratfun.Unknown as e:
        ctx.undecided('C19-D8', key, f'find_width not evaluable: {e}', fw.where())
    fp = prog.need_func(PD, 'find_peaks')
    key = f'{fp.key}::peaks (all orderings)'
    bad = None
    m = 0
    try:
        for length in range(1, L + 1):
            for vals in itertools.product((0, 1, 2, 3), repeat=length):
                data = np.array(vals, dtype=np.int64)
                for dist in (0, 1, 2, 3):
                    for height in (0, 2):
                        te = symtensor.TensorEval(prog, None, {})
                        te.numeric = True
                        te.summaries = {'_check_data': lambda a, k: None}
                        m += 1
                        try:
                            got = te.run(fp, {'data': data, 'min_peak_distance': dist, 'min_peak_height': height})
                        except (symtensor.Raised, IndexError, ValueError) as e:
                            bad = bad or f'signal {list(vals)}, distance {dist}, height {height}: raises {getattr(e, "kind", type(e).__name__)}'
                            continue
                        got = [int(x) for x in np.asarray(got).reshape(-1)]
                        cand = [i for i in range(length) if vals[i] >= height and (i == 0 or vals[i] >= vals[i - 1]) and (i == length - 1 or vals[i] >= vals[i + 1])]
                        why = None
                        if any(g not in cand for g in got) or sorted(set(got)) != got:
                            why = 'an index that is not a local maximum of sufficient height (or a repeated / unordered one) is returned'
                        elif any(abs(a - b) < dist for a in got for b in got if a != b):
                            why = 'two returned peaks are closer than min_peak_distance'
                        else:
                            for c in cand:
                                if c not in got and not any(o != c and abs(o - c) < dist and vals[o] >= vals[c] for o in cand):
                                    why = f'candidate {c} is dropped although no other candidate within the distance is at least as high'
                                    break
                        if why and bad is None:
                            bad = f'signal {list(vals)}, min_peak_distance {dist}, height {height}: returns {got} - {why}'
        ctx.check(bad is None, 'C19-D8', key, f'{bad}', f'{m} (signal ordering, distance, height) cases up to length {L}: only sufficient local maxima, pairwise at least the distance apart, '
                  'nothing dropped without a rival at least as high within the distance', fp.where(), cases=m)
    except ratfun.Unknown as e:
        ctx.undecided('C19-D8', key, f'find_peaks not evaluable: {e}', fp.where())
    return n + m


def d9(ctx, prog):
    """pad and extract_around_indexes on symbolic arrays (sa.symtensor):
      pad(array, target, offsets, pad_with)[i] = array[i - offsets] inside the placed block, pad_with everywhere else (1-D and 2-D,
      every offset that fits; offsets=None = zeros; a target too small in a dimension is refused);
      extract_around_indexes: STACK[i][j] = data[indexes[i] - before + j] for j in 0..before+after, CONCATENATE = the rows one after
      another, AVERAGE = their mean over i."""
    from .. import symtensor, ratfun
    import itertools
    np = symtensor.np
    if np is None:
        ctx.undecided('C19-D9', 'scared.signal_processing::pad / extract', 'numpy is not available to the analysis interpreter')
        return 0
    Q = ratfun.Q

    def same(a, b):
        a = a if isinstance(a, Q) else Q.lift(a)
        b = b if isinstance(b, Q) else Q.lift(b)
        return a.same(b)
    n = 0
    f = prog.need_func('scared.signal_processing.base', 'pad')
    key = f'{f.key}::placement'
    bad = None
    try:
        pw = Q.sym('p')
        for shape, target in (((2,), (4,)), ((3,), (3,)), ((2, 2), (3, 4)), ((1, 3), (2, 3))):
            arr = np.empty(shape, dtype=object)
            for idx in np.ndindex(*shape):
                arr[idx] = Q.sym('a' + ''.join(map(str, idx)))
            offsets = [None] + list(itertools.product(*[range(0, t - d + 2) for t, d in zip(target, shape)]))
            for offs in offsets:
                te = symtensor.TensorEval(prog, None, {})
                n += 1
                fits = offs is None or all(o + d <= t for o, d, t in zip(offs, shape, target))
                bind = dict(zip(f.params, (arr.copy(), target, offs, pw)))
                if offs is None:
                    bind = dict(zip(f.params, (arr.copy(), target)))        # both defaults: offsets of zero, padded with 0
                try:
                    got = te.run(f, bind)
                except symtensor.Raised as e_:
                    if fits:
                        bad = bad or f'array of shape {shape} into {target} at offsets {offs}: refused ({e_.kind}) although it fits'
                    continue
                except (ValueError, IndexError) as e_:
                    got = f'{type(e_).__name__}'
                if not fits:
                    bad = bad or f'array of shape {shape} into {target} at offsets {offs}: does not fit but is not refused by the function'
                    continue
                if not isinstance(got, np.ndarray) or got.shape != tuple(target):
                    bad = bad or f'array of shape {shape} into {target} at offsets {offs}: result {getattr(got, "shape", got)}'
                    continue
                o_ = offs if offs is not None else (0,) * len(shape)
                for idx in np.ndindex(*target):
                    src = tuple(i - o for i, o in zip(idx, o_))
                    want = arr[src] if all(0 <= s_ < d for s_, d in zip(src, shape)) else (pw if offs is not None else Q.const(0))
                    if not same(got[idx], want) and bad is None:
                        bad = f'array of shape {shape} into {target} at offsets {offs}: entry {idx} is not {"the array sample " + str(src) if all(0 <= s_ < d for s_, d in zip(src, shape)) else "pad_with (0 by default)"}'
        ctx.check(bad is None, 'C19-D9', key, f'{bad}', f'{n} (shape, target, offsets) cases: the array at the offsets, pad_with elsewhere, misfits refused', f.where(), cases=n)
    except ratfun.Unknown as e:
        ctx.undecided('C19-D9', key, f'pad not evaluable: {e}', f.where())
    PD = 'scared.signal_processing.peaks_detection'
    f = prog.need_func(PD, 'extract_around_indexes')
    key = f'{f.key}::samples taken'
    bad = None
    m = 0
    try:
        N = 8
        data = np.array([Q.sym(f'd{i}') for i in range(N)], dtype=object)
        modes = [k for k in prog.need_class(PD, 'ExtractMode').class_assigns if k.isupper()]
        for idxs in ((3,), (2, 5), (4, 2, 4)):
            for before in range(0, 3):
                for after in range(0, 3):
                    rows = [[data[i - before + j] for j in range(before + after + 1)] for i in idxs]
                    for mode in modes:
                        te = symtensor.TensorEval(prog, None, {})
                        te.numeric = True
                        m += 1
                        got = te.run(f, dict(zip(f.params, (data.copy(), np.array(idxs, dtype=np.int64), before, after, symtensor.enum_member(prog, PD, 'ExtractMode', mode)))))
                        if mode == 'STACK':
                            want = np.array(rows, dtype=object).reshape(len(idxs), before + after + 1)
                        elif mode == 'CONCATENATE':
                            want = np.array([x for r in rows for x in r], dtype=object)
                        elif mode == 'AVERAGE':
                            want = np.empty(before + after + 1, dtype=object)
                            for j in range(before + after + 1):
                                tot = Q.const(0)
                                for r in rows:
                                    tot = tot + r[j]
                                want[j] = tot / len(rows)
                        else:
                            continue
                        if not isinstance(got, np.ndarray) or got.shape != want.shape:
                            bad = bad or f'indexes {idxs}, before {before}, after {after}, {mode}: result of shape {getattr(got, "shape", None)}, documented {want.shape}'
                            continue
                        for idx in np.ndindex(*want.shape):
                            if not same(got[idx], want[idx]) and bad is None:
                                bad = f'indexes {idxs}, before {before}, after {after}, {mode}: entry {idx} is not the documented sample(s) data[index - before + j]'
        ctx.check(bad is None, 'C19-D9', key, f'{bad}', f'{m} (indexes, before, after, mode) cases: exactly the samples index-before .. index+after, stacked / concatenated / averaged', f.where(), cases=m)
    except ratfun.Unknown as e:
        ctx.undecided('C19-D9', key, f'extract_around_indexes not evaluable: {e}', f.where())
    return n + m


def run(ctx, prog):
    ctx.rule('C19-D1', 'peak filter: candidate positions never overwritten, no possibly-negative sentinel used as position/index, returns a selection of the candidates')
    ctx.rule('C19-D2', 'powers/products of array parameters happen after the float64 cast')
    ctx.rule('C19-D3', 'no in-place effect reaches a caller-owned array')
    ctx.assume('equality with the windowed definitions, find_width run semantics and pad/extract placement are value properties and not decided')
    d1(ctx, prog)
    n2 = d2(ctx, prog)
    n3 = d3(ctx, prog)
    ctx.floor('power/product sinks on parameters', n2, 6)
    ctx.rule('C19-D4', 'axis-parameter discipline: axis-wise operations receive the axis parameter, or a literal axis k of an array into which the requested axis was moved')
    ctx.floor('axis-wise operations judged', d4(ctx, prog), 2)
    ctx.floor('in-place effects judged', n3, 2)
    ctx.rule('C19-D8', 'comparison-only functions decided over all orderings of short signals: find_width = the bracketed runs strictly beyond the threshold within the width bounds; find_peaks = sufficient local maxima, pairwise distance, no candidate dropped without a rival')
    ctx.floor('ordering cases interpreted', d8(ctx, prog), 1000)
    ctx.rule('C19-D9', 'pad places the array at the offsets and pad_with elsewhere (misfits refused); extract_around_indexes takes exactly data[index-before .. index+after], stacked / concatenated / averaged')
    ctx.floor('placement cases interpreted', d9(ctx, prog), 50)
    ctx.rule('C19-D7', 'moving_sum returns the window sums along the requested axis for every window size (symbolic 1-D and 2-D signals)')
    ctx.floor('moving_sum cases evaluated', d7(ctx, prog), 15)
    ctx.rule('C19-D6', 'algebraic value numbering of the window statistics (var, std, skew, kurtosis, correlation, distance, bcdc) over a symbolic window, moving_sum / moving_mean / correlate read as window sum / mean / dot product')
    ctx.floor('window statistics compared with their definitions', d6(ctx, prog), 7)
    ctx.rule('C19-D5', 'find_width brackets its runs with the samples at or below (POSITIVE) / at or above (NEGATIVE) the threshold: truth table over direction x position relative to the threshold x threshold sign')
    ctx.floor('find_width bounding-sample cases', d5(ctx, prog), 18)
