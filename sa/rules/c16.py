"""C16 - a rejected update leaves the distinguisher exactly as it was.

D1  For every concrete distinguisher class K and every path through K.update (self./super()/setter calls inlined
    along K's MRO) that ends in a raise, the *residual* set of persistent-state effects at the end of the path is
    empty.  Effects are: rebinding an instance attribute, in-place effects on the object an attribute holds
    (augmented/subscript stores, mutator method calls, passing it to a kernel that writes that parameter).
    A handler that restores a snapshot of the instance dictionary taken earlier on the same path
    (`s = dict(self.__dict__)` ... `self.__dict__.clear(); self.__dict__.update(s)`, or `self.__dict__ = s`) undoes
    every rebinding made since the snapshot and every in-place effect on objects bound since the snapshot; in-place
    effects on objects that were already bound when the snapshot was taken survive it.
D2  The same, entered through `process` of every analysis class (nothing outside `update` touches distinguisher
    state on the way to it).
Only explicit `raise` statements (and the allocation failures the code itself catches) are considered; implicit
exceptions of library calls are out of scope (DESIGN.md).
"""
import ast

from .. import flow, kernels, universe
from ..model import norm, AnalysisError

MUTATORS = {'append', 'extend', 'clear', 'update', 'pop', 'popitem', 'remove', 'insert', 'sort', 'reverse', 'fill',
            'setdefault', 'add', 'discard', 'resize', 'itemset', 'setflags', 'put', 'partition', 'byteswap'}


def snapshot_var(node):
    """`v = dict(self.__dict__)` | `self.__dict__.copy()` | `copy.copy(self.__dict__)` | `vars(self).copy()` -> v"""
    if isinstance(node, ast.Assign) and len(node.targets) == 1 and isinstance(node.targets[0], ast.Name):
        t = norm(node.value).replace(' ', '')
        if t in ('dict(self.__dict__)', 'self.__dict__.copy()', 'dict(vars(self))', 'vars(self).copy()',
                 'copy.copy(self.__dict__)', '_copy.copy(self.__dict__)', '{**self.__dict__}'):
            return node.targets[0].id
    return None


class Effects:
    """fold a path's events into the residual state effects."""

    def __init__(self, prog, fl, cls):
        self.prog, self.fl, self.cls = prog, fl, cls
        self._written = {}
        self.scalars = universe.scalar_attrs(prog)

    def kernel_written(self, callee):
        if callee.key not in self._written:
            self._written[callee.key] = set(kernels.written_params(callee))
        return self._written[callee.key]

    def call_effects(self, ev):
        """attributes whose objects a call may mutate in place -> set of attr names; plus restore markers"""
        kind, name, how, site = ev
        func, call = self.fl.sites[site]
        out = set()
        if not isinstance(call, ast.Call):
            return out
        f = call.func
        # mutator method on an object held by an attribute: self.X.append(...)
        if isinstance(f, ast.Attribute) and f.attr in MUTATORS:
            v = f.value
            while isinstance(v, ast.Subscript):
                v = v.value
            if isinstance(v, ast.Attribute) and isinstance(v.value, ast.Name) and v.value.id == 'self' and v.attr != '__dict__':
                out.add(v.attr)
        # kernels (numba, not inlined) and locally bound callables: parameters they write
        callee, cname, chow = self.fl.resolve_call(func, call)
        cands = []
        if callee is not None and self.prog.numba_kind(callee)[0]:
            cands = [callee]
        elif chow in ('local', 'builtin', 'opaque') and isinstance(f, ast.Name):
            for var, names, node, calls in kernels.dispatch_sites(self.prog, func):
                if var == f.id:
                    cands = [self.prog.resolve_method(self.cls, n) for n in names]
                    if any(c is None for c in cands):
                        raise AnalysisError(f'dispatch candidate of {func.key} not resolvable')
        for c in cands:
            amap = kernels.call_arg_map(c, call)
            for p in self.kernel_written(c):
                a = amap.get(p)
                if a is not None:
                    v = a
                    while isinstance(v, ast.Subscript):
                        v = v.value
                    if isinstance(v, ast.Attribute) and isinstance(v.value, ast.Name) and v.value.id == 'self':
                        out.add(v.attr)
        # out= keyword of a library call
        for k in call.keywords:
            if k.arg == 'out':
                v = k.value
                while isinstance(v, ast.Subscript):
                    v = v.value
                if isinstance(v, ast.Attribute) and norm(v.value) == 'self':
                    out.add(v.attr)
        return out

    def fold(self, events):
        rebound, inplace = set(), set()
        snaps = {}
        cleared = False
        origin = None
        trace = []
        for ev in events:
            kind, name, how, site = ev
            func, node = self.fl.sites[site]
            if kind == 'lstore' and how == 'bind':
                v = snapshot_var(node)
                if v:
                    snaps[v] = (set(rebound), set(inplace))
                    trace.append(f'snapshot {v} @ {func.where(node)}')
                elif name in snaps:
                    del snaps[name]
            elif kind == 'store':
                if name == '__dict__':
                    src = norm(node.value) if isinstance(node, ast.Assign) else None
                    if how == 'bind' and src in snaps:
                        rebound, inplace = set(snaps[src][0]), set(snaps[src][1]) | inplace
                        trace.append(f'restore from {src} @ {func.where(node)}')
                    else:
                        rebound.add('*')
                    continue
                if how in ('bind', 'del') or (how == 'aug' and name in self.scalars):
                    rebound.add(name)
                elif name not in rebound:
                    inplace.add(name)
                trace.append(f'{how} self.{name} @ {func.where(node)}')
            elif kind == 'call':
                if name == 'self.__dict__.clear':
                    cleared = True
                    continue
                if name == 'self.__dict__.update' and isinstance(node, ast.Call) and len(node.args) == 1 \
                        and isinstance(node.args[0], ast.Name) and node.args[0].id in snaps:
                    if cleared:
                        s = snaps[node.args[0].id]
                        rebound, inplace = set(s[0]), set(s[1]) | inplace
                        cleared = False
                        trace.append(f'restore from {node.args[0].id} @ {func.where(node)}')
                    continue
                if name in ('setattr',) and isinstance(node, ast.Call) and node.args and norm(node.args[0]) == 'self':
                    rebound.add('*')
                for a in self.call_effects(ev):
                    if a not in rebound:
                        inplace.add(a)
                        trace.append(f'in-place self.{a} via {name} @ {func.where(node)}')
            elif kind == 'raise':
                if how in ('explicit',):
                    origin = ev
        if cleared:
            rebound.add('*cleared*')
        return rebound, inplace, origin, trace


def may_raise(func, node, path, fl):
    """allocation calls may raise the exceptions the surrounding code catches (ValueError / MemoryError)."""
    if isinstance(node, ast.Call):
        d = fl.prog.dotted(func.mod, node.func)
        if d in universe.ALLOCATORS:
            return ('ValueError', 'MemoryError')
    return ()


def keep(ev, fl):
    kind, name, how, site = ev
    if kind in ('store', 'raise'):
        return True
    if kind == 'lstore':
        return how == 'bind' and snapshot_var(fl.sites[site][1]) is not None
    if kind == 'call':
        return True
    return False


def analyse(ctx, prog, ci, entry, rule, sites):
    f = prog.resolve_method(ci, entry)
    if f is None:
        raise AnalysisError(f'{ci.key} has no {entry}')
    fl = flow.Flow(prog, ci, keep=keep, may_raise=may_raise)
    paths = fl.run(f)
    eff = Effects(prog, fl, ci)
    n_raise = 0
    for p in paths:
        if p.outcome[0] != 'raise':
            continue
        rebound, inplace, origin, trace = eff.fold(p.events)
        if origin is None:
            # an implicit exception that nothing catches (e.g. the probe idiom outside a try): not a rejection path
            continue
        n_raise += 1
        ofunc, onode = fl.sites[origin[3]]
        key = f'{ofunc.key}::{norm(onode)[:120]}'
        rec = sites.setdefault((rule, key), {'where': ofunc.where(onode), 'classes': set(), 'paths': 0, 'bad': []})
        rec['classes'].add(ci.name)
        rec['paths'] += 1
        if rebound or inplace:
            rec['bad'].append({'class': ci.name, 'entry': f'{ci.name}.{entry}', 'rebound_left': sorted(rebound),
                               'mutated_in_place': sorted(inplace), 'path': trace[-8:]})
    ctx.count('paths_enumerated', len(paths))
    ctx.count('raise_paths_judged', n_raise)
    return fl


def rejection_clause(ctx, prog, classes, rule, entry='update'):
    """the C16 analysis instantiated for a family of classes under another property's rule id: a refused batch (explicit raise
    reachable from `entry`) leaves no partial contribution behind.  Returns the number of raise sites judged."""
    from .. import universe as _uni
    _uni.inline_base_entry_points(ctx, prog)
    from .. import desugar
    desugar.desugar_with(prog, ('scared.distinguishers', 'scared.analysis', 'scared.ttest'))
    sites = {}
    for ci in classes:
        analyse(ctx, prog, ci, entry, rule, sites)
    n = 0
    for (r, key), rec in sorted(sites.items()):
        n += 1
        if rec['bad']:
            b = rec['bad'][0]
            ctx.fail(rule, key, f'a batch refused here has already changed the state and is not rolled back: rebound={b["rebound_left"]} in-place={b["mutated_in_place"]} '
                     f'(e.g. via {b["entry"]}): the statistic then mixes in traces that are not counted', where=rec['where'], classes=sorted({x['class'] for x in rec['bad']}), witness=b)
        else:
            ctx.ok(rule, key, f'{rec["paths"]} paths over {len(rec["classes"])} classes end here with no residual effect', where=rec['where'], classes=sorted(rec['classes']))
    return n


def run(ctx, prog):
    ctx.rule('C16-D1', 'no path through update() that ends in a raise leaves a residual effect on persistent state: '
                       'every attribute rebinding / in-place mutation made before the raise is undone by a dictionary '
                       'snapshot restore on that path, or there is none')
    ctx.rule('C16-D2', 'the same, entered through process() of every analysis class')
    ctx.assume('only explicit raise statements and caught allocation failures are rejection points; implicit library exceptions are not modelled')
    from .. import universe as _uni
    _uni.inline_base_entry_points(ctx, prog)
    from .. import desugar
    ds = desugar.desugar_with(prog, ('scared.distinguishers', 'scared.analysis', 'scared.ttest'))
    if ds:
        ctx.note(f'with-statements over repository context managers desugared to try/except: {ds}')
    allc, concrete = universe.distinguisher_classes(prog)
    universe_classes = list(concrete)
    if ctx.tier == 'thorough':
        universe_classes += [c for c in universe.mixin_classes(prog) if c not in universe_classes]
    sites = {}
    inlined = set()
    for ci in universe_classes:
        fl = analyse(ctx, prog, ci, 'update', 'C16-D1', sites)
        inlined |= fl.inlined
    for ci in universe.analysis_classes(prog, concrete):
        fl = analyse(ctx, prog, ci, 'process', 'C16-D2', sites)
        inlined |= fl.inlined
    ctx.unit('classes_analysed', [c.name for c in universe_classes])
    ctx.unit('functions_inlined', sorted(inlined))
    n_sites = {'C16-D1': 0, 'C16-D2': 0}
    for (rule, key), rec in sorted(sites.items()):
        n_sites[rule] += 1
        if rec['bad']:
            b = rec['bad'][0]
            ctx.fail(rule, key,
                     f'raise reachable with state already changed and not restored: rebound={b["rebound_left"]} '
                     f'in-place={b["mutated_in_place"]} (e.g. via {b["entry"]}; {len(rec["bad"])} offending paths, '
                     f'{len({x["class"] for x in rec["bad"]})} classes)',
                     where=rec['where'], classes=sorted({x['class'] for x in rec['bad']}), witness=b)
        else:
            ctx.ok(rule, key, f'{rec["paths"]} paths over {len(rec["classes"])} classes end here with no residual effect',
                   where=rec['where'], classes=sorted(rec['classes']))
    ctx.floor('concrete distinguisher classes', len(concrete), 22)
    ctx.floor('explicit raise sites reachable from update', n_sites['C16-D1'], 20)
    ctx.floor('explicit raise sites reachable from process', n_sites['C16-D2'], 15)
