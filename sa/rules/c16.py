"""C16 - a rejected update leaves the distinguisher exactly as it was.

D1  For every concrete distinguisher class K and every path through K.update (self./super()/setter calls inlined
    along K's MRO) that ends in a raise, the *residual* set of persistent-state effects at the end of the path is
    empty.  Effects are: rebinding an instance attribute, in-place effects on the object an attribute holds
    (augmented/subscript stores, mutator method calls, passing it to a kernel that writes that parameter).
    A handler that restores a snapshot of the instance dictionary taken earlier on the same path
    (`s = dict(self.__dict__)` ... `self.__dict__.clear(); self.__dict__.update(s)`, or `self.__dict__ = s`) undoes
    every rebinding made since the snapshot and every in-place effect on objects bound since the snapshot; in-place
    effects on objects that were already bound when the snapshot was taken survive it.
D2  The same, entered through `process` of every analysis class (nothing outside `update` touches distinguisher
    state on the way to it).
Only explicit `raise` statements (and the allocation failures the code itself catches) are considered; implicit
exceptions of library calls are out of scope (DESIGN.md).
"""
import ast

from .. import flow, kernels, universe, astutil
from ..model import norm, AnalysisError, const_value

MUTATORS = {'append', 'extend', 'clear', 'update', 'pop', 'popitem', 'remove', 'insert', 'sort', 'reverse', 'fill',
            'setdefault', 'add', 'discard', 'resize', 'itemset', 'setflags', 'put', 'partition', 'byteswap'}


def snapshot_var(node):
    """`v = dict(self.__dict__)` | `self.__dict__.copy()` | `copy.copy(self.__dict__)` | `vars(self).copy()` -> v"""
    if isinstance(node, ast.Assign) and len(node.targets) == 1 and isinstance(node.targets[0], ast.Name):
        t = norm(node.value).replace(' ', '')
        if t in ('dict(self.__dict__)', 'self.__dict__.copy()', 'dict(vars(self))', 'vars(self).copy()',
                 'copy.copy(self.__dict__)', '_copy.copy(self.__dict__)', '{**self.__dict__}'):
            return node.targets[0].id
    return None


class Effects:
    """fold a path's events into the residual state effects."""

    def __init__(self, prog, fl, cls):
        self.prog, self.fl, self.cls = prog, fl, cls
        self._written = {}
        self.scalars = universe.scalar_attrs(prog)

    def kernel_written(self, callee):
        if callee.key not in self._written:
            self._written[callee.key] = set(kernels.written_params(callee))
        return self._written[callee.key]

    def call_effects(self, ev):
        """attributes whose objects a call may mutate in place -> set of attr names; plus restore markers"""
        kind, name, how, site = ev
        func, call = self.fl.sites[site]
        out = set()
        if not isinstance(call, ast.Call):
            return out
        f = call.func
        # mutator method on an object held by an attribute: self.X.append(...)
        if isinstance(f, ast.Attribute) and f.attr in MUTATORS:
            v = f.value
            while isinstance(v, ast.Subscript):
                v = v.value
            if isinstance(v, ast.Attribute) and isinstance(v.value, ast.Name) and v.value.id == 'self' and v.attr != '__dict__':
                out.add(v.attr)
        # kernels (numba, not inlined) and locally bound callables: parameters they write
        callee, cname, chow = self.fl.resolve_call(func, call)
        cands = []
        if callee is not None and self.prog.numba_kind(callee)[0]:
            cands = [callee]
        elif chow in ('local', 'builtin', 'opaque') and isinstance(f, ast.Name):
            for var, names, node, calls in kernels.dispatch_sites(self.prog, func):
                if var == f.id:
                    cands = [self.prog.resolve_method(self.cls, n) for n in names]
                    if any(c is None for c in cands):
                        raise AnalysisError(f'dispatch candidate of {func.key} not resolvable')
        for c in cands:
            amap = kernels.call_arg_map(c, call)
            for p in self.kernel_written(c):
                a = amap.get(p)
                if a is not None:
                    v = a
                    while isinstance(v, ast.Subscript):
                        v = v.value
                    if isinstance(v, ast.Attribute) and isinstance(v.value, ast.Name) and v.value.id == 'self':
                        out.add(v.attr)
        # out= keyword of a library call
        for k in call.keywords:
            if k.arg == 'out':
                v = k.value
                while isinstance(v, ast.Subscript):
                    v = v.value
                if isinstance(v, ast.Attribute) and norm(v.value) == 'self':
                    out.add(v.attr)
        return out

    def fold(self, events):
        rebound, inplace = set(), set()
        snaps = {}
        cleared = False
        origin = None
        trace = []
        for ev in events:
            kind, name, how, site = ev
            func, node = self.fl.sites[site]
            if kind == 'lstore' and how == 'bind':
                v = snapshot_var(node)
                if v:
                    snaps[v] = (set(rebound), set(inplace))
                    trace.append(f'snapshot {v} @ {func.where(node)}')
                elif name in snaps:
                    del snaps[name]
            elif kind == 'store':
                if name == '__dict__':
                    src = norm(node.value) if isinstance(node, ast.Assign) else None
                    if how == 'bind' and src in snaps:
                        rebound, inplace = set(snaps[src][0]), set(snaps[src][1]) | inplace
                        trace.append(f'restore from {src} @ {func.where(node)}')
                    else:
                        rebound.add('*')
                    continue
                if how in ('bind', 'del') or (how == 'aug' and name in self.scalars):
                    rebound.add(name)
                elif name not in rebound:
                    inplace.add(name)
                trace.append(f'{how} self.{name} @ {func.where(node)}')
            elif kind == 'call':
                if name == 'self.__dict__.clear':
                    cleared = True
                    continue
                if name == 'self.__dict__.update' and isinstance(node, ast.Call) and len(node.args) == 1 \
                        and isinstance(node.args[0], ast.Name) and node.args[0].id in snaps:
                    if cleared:
                        s = snaps[node.args[0].id]
                        rebound, inplace = set(s[0]), set(s[1]) | inplace
                        cleared = False
                        trace.append(f'restore from {node.args[0].id} @ {func.where(node)}')
                    continue
                if name in ('setattr',) and isinstance(node, ast.Call) and node.args and norm(node.args[0]) == 'self':
                    rebound.add('*')
                for a in self.call_effects(ev):
                    if a not in rebound:
                        inplace.add(a)
                        trace.append(f'in-place self.{a} via {name} @ {func.where(node)}')
            elif kind == 'raise':
                if how in ('explicit',):
                    origin = ev
        if cleared:
            rebound.add('*cleared*')
        return rebound, inplace, origin, trace


def may_raise(func, node, path, fl):
    """allocation calls may raise the exceptions the surrounding code catches (ValueError / MemoryError)."""
    if isinstance(node, ast.Call):
        d = fl.prog.dotted(func.mod, node.func)
        if d in universe.ALLOCATORS:
            return ('ValueError', 'MemoryError')
    return ()


def keep(ev, fl):
    kind, name, how, site = ev
    if kind in ('store', 'raise'):
        return True
    if kind == 'lstore':
        return how == 'bind' and snapshot_var(fl.sites[site][1]) is not None
    if kind == 'call':
        return True
    return False


def analyse(ctx, prog, ci, entry, rule, sites):
    f = prog.resolve_method(ci, entry)
    if f is None:
        raise AnalysisError(f'{ci.key} has no {entry}')
    fl = flow.Flow(prog, ci, keep=keep, may_raise=may_raise)
    paths = fl.run(f)
    eff = Effects(prog, fl, ci)
    n_raise = 0
    for p in paths:
        if p.outcome[0] != 'raise':
            continue
        rebound, inplace, origin, trace = eff.fold(p.events)
        if origin is None:
            # an implicit exception that nothing catches (e.g. the probe idiom outside a try): not a rejection path
            continue
        n_raise += 1
        ofunc, onode = fl.sites[origin[3]]
        key = f'{ofunc.key}::{norm(onode)[:120]}'
        if ofunc.cls is None and ofunc.parent is None:
            # a refusal raised through a shared module-level helper: one rejection point per call site of the helper
            evs = list(p.events)
            k_ = evs.index(origin) if origin in evs else len(evs)
            want = ofunc.mod.name + '.' + ofunc.qualname
            for ev in reversed(evs[:k_]):
                if ev[0] == 'call' and ev[2] == 'inline' and ev[1] == want:
                    cfunc, cnode = fl.sites[ev[3]]
                    key = f'{cfunc.key}::{norm(cnode)[:120]} -> {ofunc.qualname}'
                    ofunc, onode = cfunc, cnode
                    break
        rec = sites.setdefault((rule, key), {'where': ofunc.where(onode), 'classes': set(), 'paths': 0, 'bad': []})
        rec['classes'].add(ci.name)
        rec['paths'] += 1
        if rebound or inplace:
            rec['bad'].append({'class': ci.name, 'entry': f'{ci.name}.{entry}', 'rebound_left': sorted(rebound),
                               'mutated_in_place': sorted(inplace), 'path': trace[-8:]})
    ctx.count('paths_enumerated', len(paths))
    ctx.count('raise_paths_judged', n_raise)
    return fl


def implicit_shape_rejections(ctx, prog, rule):
    """a batch dimension that no explicit check of `_update` compares with the state (e.g. the number of data words in CPA) is
    refused by numpy itself, at the first in-place accumulation into an array that has that dimension; every accumulation that
    runs before it has already added the batch when the exception leaves update(), and the dictionary snapshot cannot undo an
    in-place `+=`.  Rule: for every unchecked batch dimension the first accumulation involving it is the first accumulation."""
    n = 0
    allc, concrete = universe.distinguisher_classes(prog)
    seen = set()
    for ci in concrete:
        upd, ini = prog.resolve_method(ci, '_update'), prog.resolve_method(ci, '_initialize')
        if upd is None or ini is None or upd.key in seen:
            continue
        seen.add(upd.key)
        from .. import inline as _inl
        upd, ini = _inl.inlined(prog, upd), _inl.inlined(prog, ini)     # refusals raised through shared helpers read in place
        stmts = astutil.stmts_of(upd.node)
        accs = [st for st in stmts if isinstance(st, ast.AugAssign) and isinstance(st.target, ast.Attribute) and norm(st.target.value) == 'self']
        if len(accs) < 2:
            continue
        ipos = {p_: i_ for i_, p_ in enumerate([p_ for p_ in ini.params if p_ != 'self'])}
        upos = {p_: i_ for i_, p_ in enumerate([p_ for p_ in upd.params if p_ != 'self'])}

        def dim_symbol(e, pos):
            if isinstance(e, ast.Subscript) and isinstance(e.value, ast.Attribute) and e.value.attr == 'shape' and isinstance(e.value.value, ast.Name) and e.value.value.id in pos:
                k = const_value(e.slice)
                if isinstance(k, int):
                    return (pos[e.value.value.id], k)
            return None
        local = {}
        for st in ast.walk(ini.node):
            if isinstance(st, ast.Assign) and len(st.targets) == 1 and isinstance(st.targets[0], ast.Name):
                d = dim_symbol(st.value, ipos)
                if d is not None:
                    local[st.targets[0].id] = d
        acc_dims = {}
        for st in ast.walk(ini.node):
            if isinstance(st, ast.Assign) and len(st.targets) == 1 and isinstance(st.targets[0], ast.Attribute) and norm(st.targets[0].value) == 'self' and isinstance(st.value, ast.Call) and st.value.args:
                shp = st.value.args[0]
                elts = shp.elts if isinstance(shp, (ast.Tuple, ast.List)) else [shp]
                dims = set()
                for e in elts:
                    d = local.get(e.id) if isinstance(e, ast.Name) else dim_symbol(e, ipos)
                    if d is not None:
                        dims.add(d)
                acc_dims[st.targets[0].attr] = dims
        checked = set()
        ulocal = {}
        for st in ast.walk(upd.node):
            if isinstance(st, ast.Assign) and len(st.targets) == 1 and isinstance(st.targets[0], ast.Name) and dim_symbol(st.value, upos) is not None:
                ulocal[st.targets[0].id] = dim_symbol(st.value, upos)     # a size read into a local (rebinding the array by a cast does not change it)
            elif isinstance(st, ast.Assign) and len(st.targets) == 1 and isinstance(st.targets[0], ast.Tuple) and isinstance(st.value, ast.Tuple) and len(st.targets[0].elts) == len(st.value.elts):
                for t_, v_ in zip(st.targets[0].elts, st.value.elts):
                    if isinstance(t_, ast.Name) and dim_symbol(v_, upos) is not None:
                        ulocal[t_.id] = dim_symbol(v_, upos)
        for st in stmts:
            if isinstance(st, ast.If) and st.body and isinstance(st.body[-1], ast.Raise):
                for e in ast.walk(st.test):
                    d = dim_symbol(e, upos) or (ulocal.get(e.id) if isinstance(e, ast.Name) else None)
                    if d is not None:
                        checked.add(d)
        names = {v: k for k, v in upos.items()}
        for u in sorted({d for a in accs for d in acc_dims.get(a.target.attr, ())} - checked):
            n += 1
            first = next(i for i, a in enumerate(accs) if u in acc_dims.get(a.target.attr, ()))
            key = f'{upd.key}::unchecked dimension {names.get(u[0], u[0])}.shape[{u[1]}]'
            if first == 0:
                ctx.ok(rule, key, f'no explicit check: a mismatch is refused by numpy at the first accumulation `{norm(accs[0])[:50]}`, before any state was changed', upd.where(accs[0]))
            else:
                ctx.fail(rule, key, f'a batch whose {names.get(u[0], u[0])}.shape[{u[1]}] differs from the accumulated state is refused only by numpy, at `{norm(accs[first])[:50]}` - after '
                         f'`{norm(accs[0])[:50]}` (and {first - 1} more) have already added the batch in place: the refused batch stays in {", ".join("self." + a.target.attr for a in accs[:first])} '
                         f'while the trace count does not include it', upd.where(accs[first]))
    return n


def rejection_clause(ctx, prog, classes, rule, entry='update'):
    """the C16 analysis instantiated for a family of classes under another property's rule id: a refused batch (explicit raise
    reachable from `entry`) leaves no partial contribution behind.  Returns the number of raise sites judged."""
    from .. import universe as _uni
    _uni.inline_base_entry_points(ctx, prog)
    from .. import desugar
    desugar.desugar_with(prog, ('scared.distinguishers', 'scared.analysis', 'scared.ttest'))
    sites = {}
    for ci in classes:
        analyse(ctx, prog, ci, entry, rule, sites)
    n = 0
    for (r, key), rec in sorted(sites.items()):
        n += 1
        if rec['bad']:
            b = rec['bad'][0]
            ctx.fail(rule, key, f'a batch refused here has already changed the state and is not rolled back: rebound={b["rebound_left"]} in-place={b["mutated_in_place"]} '
                     f'(e.g. via {b["entry"]}): the statistic then mixes in traces that are not counted', where=rec['where'], classes=sorted({x['class'] for x in rec['bad']}), witness=b)
        else:
            ctx.ok(rule, key, f'{rec["paths"]} paths over {len(rec["classes"])} classes end here with no residual effect', where=rec['where'], classes=sorted(rec['classes']))
    return n


def run(ctx, prog):
    ctx.rule('C16-D1', 'no path through update() that ends in a raise leaves a residual effect on persistent state: '
                       'every attribute rebinding / in-place mutation made before the raise is undone by a dictionary '
                       'snapshot restore on that path, or there is none')
    ctx.rule('C16-D2', 'the same, entered through process() of every analysis class')
    ctx.assume('only explicit raise statements and caught allocation failures are rejection points; implicit library exceptions are not modelled')
    from .. import universe as _uni
    _uni.inline_base_entry_points(ctx, prog)
    from .. import desugar
    ds = desugar.desugar_with(prog, ('scared.distinguishers', 'scared.analysis', 'scared.ttest'))
    if ds:
        ctx.note(f'with-statements over repository context managers desugared to try/except: {ds}')
    allc, concrete = universe.distinguisher_classes(prog)
    universe_classes = list(concrete)
    if ctx.tier == 'thorough':
        universe_classes += [c for c in universe.mixin_classes(prog) if c not in universe_classes]
    sites = {}
    inlined = set()
    for ci in universe_classes:
        fl = analyse(ctx, prog, ci, 'update', 'C16-D1', sites)
        inlined |= fl.inlined
    for ci in universe.analysis_classes(prog, concrete):
        fl = analyse(ctx, prog, ci, 'process', 'C16-D2', sites)
        inlined |= fl.inlined
    ctx.unit('classes_analysed', [c.name for c in universe_classes])
    ctx.unit('functions_inlined', sorted(inlined))
    n_sites = {'C16-D1': 0, 'C16-D2': 0}
    for (rule, key), rec in sorted(sites.items()):
        n_sites[rule] += 1
        if rec['bad']:
            b = rec['bad'][0]
            ctx.fail(rule, key,
                     f'raise reachable with state already changed and not restored: rebound={b["rebound_left"]} '
                     f'in-place={b["mutated_in_place"]} (e.g. via {b["entry"]}; {len(rec["bad"])} offending paths, '
                     f'{len({x["class"] for x in rec["bad"]})} classes)',
                     where=rec['where'], classes=sorted({x['class'] for x in rec['bad']}), witness=b)
        else:
            ctx.ok(rule, key, f'{rec["paths"]} paths over {len(rec["classes"])} classes end here with no residual effect',
                   where=rec['where'], classes=sorted(rec['classes']))
    ctx.rule('C16-D3', 'a batch dimension without an explicit check is refused by numpy at the first in-place accumulation involving it: that accumulation must be the first one')
    ctx.floor('unchecked batch dimensions judged', implicit_shape_rejections(ctx, prog, 'C16-D3'), 1)
    ctx.rule('C16-D4', 'the trace count is incremented after every call that can refuse the batch (concrete _update, kernels, numpy): an implicitly refused batch is not counted')
    from .. import kernelrules as _kr
    _base = prog.need_class(*universe.DIST_BASE)
    _upd = _base.methods.get('update')
    for kind_, node_, text_ in _kr.count_after_last_call(_upd, 'processed_traces'):
        k4 = f'{_upd.key}::count after the last call'
        if kind_ == 'ok':
            ctx.ok('C16-D4', k4, text_, _upd.where(node_))
        elif kind_ == 'bad':
            ctx.fail('C16-D4', k4, text_, _upd.where(node_))
        else:
            ctx.undecided('C16-D4', k4, text_, _upd.where())
    ctx.floor('concrete distinguisher classes', len(concrete), 22)
    ctx.floor('explicit raise sites reachable from update', n_sites['C16-D1'], 20)
    ctx.floor('explicit raise sites reachable from process', n_sites['C16-D2'], 15)
