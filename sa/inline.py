"""AST-level inlining of small same-module / same-class helpers ("treat a wrapper as what it wraps").

`inlined(prog, f)` returns a copy of f's FunctionDef in which calls of helpers are replaced by the helper's code, so that rules
written for one function's statements also read the same behaviour after an "extract helper" refactoring.  Supported helper
shapes (anything else is left as a call):

  E  a single `return <expr>` (after an optional docstring): the call expression is replaced by <expr> with parameters
     substituted by the argument expressions (arguments that are not simple - name, constant, attribute chain, subscript of
     those - are bound to a temporary first when the parameter is used more than once);
  S  statement bodies whose only `return` is the last statement (or absent), called as a statement `helper(...)`, as
     `target = helper(...)` or as `return helper(...)`: the body is spliced in; locals of the helper are renamed, a parameter
     that the helper rebinds is renamed to the caller's variable when the argument is a plain name that also receives the
     result (`x = helper(state=x)`), else to a fresh local initialised from the argument.

Only helpers defined in the same module (module-level functions, or methods of the same class called through `self.`/the class)
and not decorated with anything but staticmethod are inlined; recursion is cut by a depth bound.
"""
import ast
import copy

from .model import norm

SIMPLE = (ast.Name, ast.Constant, ast.Attribute)


def is_simple(e):
    if isinstance(e, (ast.Name, ast.Constant)):
        return True
    if isinstance(e, ast.Attribute):
        return is_simple(e.value)
    if isinstance(e, ast.Subscript):
        return is_simple(e.value) and all(is_simple(x) or isinstance(x, ast.Slice) and all(y is None or is_simple(y) for y in (x.lower, x.upper, x.step))
                                          for x in (e.slice.elts if isinstance(e.slice, ast.Tuple) else [e.slice]))
    if isinstance(e, ast.UnaryOp):
        return is_simple(e.operand)
    return False


def body_no_doc(fnode):
    b = list(fnode.body)
    if b and isinstance(b[0], ast.Expr) and isinstance(b[0].value, ast.Constant) and isinstance(b[0].value.value, str):
        b = b[1:]
    return b


def resolve_helper(prog, f, call, skip=()):
    fn = call.func
    callee = None
    is_method = False
    local_closure = False
    if isinstance(fn, ast.Name):
        # a closure defined in the calling function itself: inlined into the scope it already reads from
        loc = [g for g in prog.funcs if g.parent is not None and g.parent.key == f.key and g.name == fn.id]
        if len(loc) == 1 and not loc[0].node.decorator_list and not (loc[0].node.args.vararg or loc[0].node.args.kwarg) and fn.id not in skip:
            return loc[0], False
        r = prog.resolve(f.mod, fn)
        if r and r[0] == 'func' and r[1].cls is None and r[1].parent is None and (r[1].mod is f.mod or same_globals(prog, r[1], f.mod)):
            callee = r[1]          # a private module-level function, possibly imported (every global it reads means the same here)
    elif isinstance(fn, ast.Attribute) and isinstance(fn.value, ast.Name) and fn.value.id != 'self' and fn.value.id not in f.params:
        r = prog.resolve(f.mod, fn)     # `base._helper(...)` through an imported module of the package
        if r and r[0] == 'func' and r[1].cls is None and r[1].parent is None and r[1].mod is not f.mod and same_globals(prog, r[1], f.mod):
            callee = r[1]
    elif isinstance(fn, ast.Attribute) and isinstance(fn.value, ast.Name) and fn.value.id == 'self' and f.cls is not None:
        m = prog.resolve_method(f.cls, fn.attr)
        if m is not None and (m.mod is f.mod or same_globals(prog, m, f.mod)):
            callee, is_method = m, True
    if callee is None or callee is f or callee.name in skip or not callee.name.startswith('_') or callee.name.startswith('__'):
        return None, False
    decs = [norm(d) for d in callee.node.decorator_list]
    if any(d != 'staticmethod' for d in decs):
        return None, False
    a = callee.node.args
    if a.kwarg:
        return None, False
    if a.vararg and not star_forwarded_only(callee.node, a.vararg.arg):
        return None, False
    return callee, is_method


def same_globals(prog, m, mod):
    """every global name the method m reads means the same thing in module `mod` (a base-class helper inherited across modules)"""
    import builtins
    local = set(m.params) | {n.id for n in ast.walk(m.node) if isinstance(n, ast.Name) and isinstance(n.ctx, (ast.Store, ast.Del))}
    for n in ast.walk(m.node):
        if isinstance(n, ast.Name) and isinstance(n.ctx, ast.Load) and n.id not in local and not hasattr(builtins, n.id):
            a = prog.resolve(m.mod, n)
            b = prog.resolve(mod, n)
            if a is None or b is None or a[0] != b[0]:
                return False
            if a[0] in ('ext', 'mod') and a[1] != b[1] if a[0] == 'ext' else (a[0] == 'mod' and a[1] is not b[1]):
                return False
            if a[0] in ('func', 'class') and a[1] is not b[1]:
                return False
    return True


def star_forwarded_only(fnode, name):
    """the *args parameter is used only as `*args` in calls (forwarded as it is)"""
    starred = {id(n.value) for c in ast.walk(fnode) if isinstance(c, ast.Call) for n in c.args if isinstance(n, ast.Starred) and isinstance(n.value, ast.Name) and n.value.id == name}
    uses = [n for n in ast.walk(fnode) if isinstance(n, ast.Name) and n.id == name]
    return bool(uses) and all(id(n) in starred for n in uses)


class _ExpandStar(ast.NodeTransformer):
    def __init__(self, name, k):
        self.name, self.k = name, k

    def visit_Call(self, n):
        self.generic_visit(n)
        args = []
        for a in n.args:
            if isinstance(a, ast.Starred) and isinstance(a.value, ast.Name) and a.value.id == self.name:
                args.extend(ast.Name(id=f'__va{i}_{self.name}', ctx=ast.Load()) for i in range(self.k))
            else:
                args.append(a)
        n.args = args
        return n


def bind(callee, call, is_method):
    a = callee.node.args
    params = [x.arg for x in a.posonlyargs + a.args]
    static = any(norm(d) == 'staticmethod' for d in callee.node.decorator_list)
    if is_method and not static and params and params[0] == 'self':
        params = params[1:]
    defaults = dict(zip(params[len(params) - len(a.defaults):], a.defaults)) if a.defaults else {}
    out = {}
    for i, arg in enumerate(call.args):
        if isinstance(arg, ast.Starred):
            return None
        if i >= len(params):
            if a.vararg is None:
                return None
            out[f'__va{i - len(params)}_{a.vararg.arg}'] = arg      # star-forwarded extras, see _ExpandStar
            continue
        out[params[i]] = arg
    for k in call.keywords:
        if k.arg is None or k.arg not in params or k.arg in out:
            return None
        out[k.arg] = k.value
    if a.vararg is not None:
        out['__nva__'] = ast.Constant(value=sum(1 for k_ in out if k_.startswith('__va')))
    for p in params:
        if p not in out:
            if p in defaults:
                out[p] = defaults[p]
            else:
                return None
    for k, d in zip(a.kwonlyargs, a.kw_defaults):
        kv = next((x.value for x in call.keywords if x.arg == k.arg), d)
        if kv is None:
            return None
        out[k.arg] = kv
    return out


class Subst(ast.NodeTransformer):
    def __init__(self, mapping):
        self.m = mapping

    def visit_Name(self, n):
        if n.id in self.m:
            v = self.m[n.id]
            if isinstance(v, str):
                return ast.copy_location(ast.Name(id=v, ctx=n.ctx), n)
            if isinstance(n.ctx, ast.Load):
                return ast.copy_location(copy.deepcopy(v), n)
        return n


def assigned_names(stmts):
    out = set()
    for st in stmts:
        for n in ast.walk(st):
            if isinstance(n, ast.Name) and isinstance(n.ctx, (ast.Store, ast.Del)):
                out.add(n.id)
            elif isinstance(n, (ast.FunctionDef, ast.Lambda, ast.ClassDef)):
                pass
    return out


class Inliner:
    def __init__(self, prog, f, depth=2, skip=()):
        self.prog, self.f, self.depth, self.skip = prog, f, depth, set(skip)
        self.counter = 0
        self.inlined = []

    # ---------------------------------------------------------------- expression helpers
    def expr_helper(self, call):
        callee, is_method = resolve_helper(self.prog, self.f, call, self.skip)
        if callee is None:
            return None
        body = body_no_doc(callee.node)
        if len(body) != 1 or not isinstance(body[0], ast.Return) or body[0].value is None:
            return None
        b = bind(callee, call, is_method)
        if b is None or '__nva__' in b:
            return None
        ret = body[0].value
        uses = {}
        for n in ast.walk(ret):
            if isinstance(n, ast.Name) and n.id in b:
                uses[n.id] = uses.get(n.id, 0) + 1
        if any(not is_simple(v) and uses.get(p, 0) > 1 for p, v in b.items()):
            return None
        if any(isinstance(n, (ast.Lambda, ast.ListComp, ast.GeneratorExp, ast.DictComp, ast.SetComp)) for n in ast.walk(ret)):
            return None
        self.inlined.append(callee.key)
        new = Subst(b).visit(copy.deepcopy(ret))
        return new

    def rewrite_exprs(self, node, depth):
        me = self

        class T(ast.NodeTransformer):
            def visit_Call(self, n):
                self.generic_visit(n)
                if depth <= 0:
                    return n
                r = me.expr_helper(n)
                if r is None:
                    return n
                return ast.copy_location(me.rewrite_exprs(r, depth - 1), n)

            def visit_FunctionDef(self, n):
                return n

            def visit_Lambda(self, n):
                return n
        t = T()
        if isinstance(node, (ast.FunctionDef, ast.AsyncFunctionDef)):
            node.body = [t.visit(s) for s in node.body]
            return node
        return t.visit(node)

    # ---------------------------------------------------------------- statement helpers
    # ---------------------------------------------------------------- generator helpers driven by a for loop
    def gen_loop(self, st, depth):
        """`for T in self._gen(args): BODY` with a private generator helper: the generator's body with every `yield v` replaced by
        `T = v; BODY` - the interleaving a generator has with its consumer, written out.  Declined (None) whenever the two could
        differ: break / continue / return / yield in BODY, an else clause, a yield inside try / with, return / yield-as-expression in
        the generator, an argument name that BODY rebinds."""
        if depth <= 0 or st.orelse or not isinstance(st.iter, ast.Call):
            return None
        if any(isinstance(n, (ast.Break, ast.Continue, ast.Return, ast.Yield, ast.YieldFrom, ast.FunctionDef, ast.Lambda)) for b in st.body for n in ast.walk(b)):
            return None
        counter = None
        if isinstance(st.iter.func, ast.Name) and st.iter.func.id == 'enumerate' and len(st.iter.args) == 1 and not st.iter.keywords and isinstance(st.iter.args[0], ast.Call) \
                and isinstance(st.target, ast.Tuple) and len(st.target.elts) == 2 and isinstance(st.target.elts[0], ast.Name):
            # `for i, T in enumerate(gen())`: when the generator yields exactly once per iteration of its single `for v in range(n)`
            # loop, the count i *is* v
            callee_, _ = resolve_helper(self.prog, self.f, st.iter.args[0], self.skip)
            if callee_ is None:
                return None
            gb = body_no_doc(callee_.node)
            loops_ = [s for s in gb if isinstance(s, ast.For)]
            ys_ = [n for s in gb for n in ast.walk(s) if isinstance(n, ast.Yield)]
            if len(loops_) != 1 or len(ys_) != 1 or loops_[0].orelse or not isinstance(loops_[0].target, ast.Name):
                return None
            lp = loops_[0]
            if not (isinstance(lp.iter, ast.Call) and isinstance(lp.iter.func, ast.Name) and lp.iter.func.id == 'range' and len(lp.iter.args) == 1 and not lp.iter.keywords):
                return None
            if not any(isinstance(b, ast.Expr) and b.value is ys_[0] for b in lp.body) or any(isinstance(n, (ast.Continue, ast.Break)) for b in lp.body for n in ast.walk(b)):
                return None            # the yield must be unconditional, once per iteration
            if any(isinstance(n, ast.Name) and n.id == lp.target.id and isinstance(n.ctx, ast.Store) and n is not lp.target for n in ast.walk(callee_.node)):
                return None
            counter = (lp.target.id, st.target.elts[0].id)
            st = ast.copy_location(ast.For(target=st.target.elts[1], iter=st.iter.args[0], body=st.body, orelse=[]), st)
        callee, is_method = resolve_helper(self.prog, self.f, st.iter, self.skip)
        if callee is None:
            return None
        body = body_no_doc(callee.node)
        yields = [n for s in body for n in ast.walk(s) if isinstance(n, ast.Yield)]
        if not yields or len(yields) > 3:
            return None
        ystmts = [n for s in body for n in ast.walk(s) if isinstance(n, ast.Expr) and isinstance(n.value, ast.Yield)]
        if len(ystmts) != len(yields):
            return None
        if any(isinstance(n, (ast.YieldFrom, ast.Return, ast.Global, ast.Nonlocal, ast.FunctionDef, ast.ClassDef, ast.Lambda)) for s in body for n in ast.walk(s)):
            return None
        # a yield inside try / with: what BODY raises (or the generator being closed) would meet the generator's handlers differently
        if any(isinstance(y, ast.Yield) for s in body for t in ast.walk(s) if isinstance(t, (ast.Try, ast.With)) for y in ast.walk(t)):
            return None
        rebound_by_consumer = assigned_names(st.body) | assigned_names([ast.Assign(targets=[st.target], value=ast.Constant(value=None))])
        if any(isinstance(n, ast.Name) and n.id in rebound_by_consumer for a in list(st.iter.args) + [k.value for k in st.iter.keywords] for n in ast.walk(a)):
            return None

        class Y(ast.NodeTransformer):
            def visit_Expr(self, n):
                if isinstance(n.value, ast.Yield):
                    v = n.value.value if n.value.value is not None else ast.Constant(value=None)
                    return ast.copy_location(ast.Expr(value=ast.Call(func=ast.Name(id='__yield__', ctx=ast.Load()), args=[v], keywords=[])), n)
                return n
        marked = [Y().visit(copy.deepcopy(s)) for s in body]
        # one yield of plain generator locals into plain consumer names: the generator's locals *are* the consumer's variables
        # (no copy to follow), provided the consumer never rebinds them and the generator uses those names for nothing else
        share = {}
        if len(yields) == 1 and yields[0].value is not None:
            yv = yields[0].value
            ys = list(yv.elts) if isinstance(yv, ast.Tuple) else [yv]
            ts = list(st.target.elts) if isinstance(st.target, ast.Tuple) else [st.target]
            params_ = {a_.arg for a_ in callee.node.args.posonlyargs + callee.node.args.args + callee.node.args.kwonlyargs}
            gen_names = {n.id for s in body for n in ast.walk(s) if isinstance(n, ast.Name)}
            if len(ys) == len(ts) and all(isinstance(y, ast.Name) for y in ys) and all(isinstance(t, ast.Name) for t in ts) \
                    and len({y.id for y in ys}) == len(ys) and not ({y.id for y in ys} & params_) \
                    and not ({t.id for t in ts} & (gen_names - {y.id for y in ys})) and not ({t.id for t in ts} & assigned_names(st.body)):
                share = {y.id: t.id for y, t in zip(ys, ts)}
        if counter is not None:
            if counter[1] in assigned_names(st.body) or counter[1] in {n.id for s in body for n in ast.walk(s) if isinstance(n, ast.Name)} - {counter[0]}:
                return None
            share = dict(share)
            share[counter[0]] = counter[1]
        out = self.stmt_helper(ast.copy_location(ast.Expr(value=st.iter), st), depth, forced=(callee, is_method, marked, share))
        if out is None:
            return None
        me = self

        def put(stmts):
            res = []
            for s in stmts:
                if isinstance(s, ast.Expr) and isinstance(s.value, ast.Call) and isinstance(s.value.func, ast.Name) and s.value.func.id == '__yield__':
                    a = ast.Assign(targets=[copy.deepcopy(st.target)], value=s.value.args[0])
                    ast.copy_location(a, st)
                    ast.fix_missing_locations(a)
                    if norm(a.targets[0]) != norm(a.value):          # shared names: nothing to bind
                        res.append(a)
                    res.extend(me.block(copy.deepcopy(st.body), depth))
                    continue
                for field in ('body', 'orelse', 'finalbody'):
                    blk = getattr(s, field, None)
                    if isinstance(blk, list) and blk and isinstance(blk[0], ast.stmt):
                        setattr(s, field, put(blk))
                res.append(s)
            return res
        return put(out)

    # ---------------------------------------------------------------- helpers answering with a literal token, tested at once
    @staticmethod
    def _token(e):
        """a literal answer of a helper: a constant, or a dotted name in capitals (an enum member)"""
        if isinstance(e, ast.Constant):
            return ('const', repr(e.value))
        if isinstance(e, ast.Attribute) and isinstance(e.value, (ast.Name, ast.Attribute)) and e.attr.isupper():
            return ('member', norm(e))
        return None

    def cond_helper(self, st, depth):
        """`if self._state() is K.X: A else: B` where every return of the helper is a literal token (enum member / constant) and
        every path of the helper ends in a return: the helper's body (guard clauses nested) with each `return t` replaced by A when
        t is the tested token and by B otherwise.  The decision the helper encodes in a token is made where the token was made."""
        if depth <= 0 or not isinstance(st.test, ast.Compare) or len(st.test.ops) != 1 or not isinstance(st.test.ops[0], (ast.Is, ast.IsNot, ast.Eq, ast.NotEq)):
            return None
        l, r = st.test.left, st.test.comparators[0]
        if isinstance(r, ast.Call) and not isinstance(l, ast.Call):
            l, r = r, l
        if not isinstance(l, ast.Call) or self._token(r) is None:
            return None
        want = self._token(r)
        negate = isinstance(st.test.ops[0], (ast.IsNot, ast.NotEq))
        callee, is_method = resolve_helper(self.prog, self.f, l, self.skip)
        if callee is None:
            return None
        from . import normalize as _nz
        body = _nz._structure(copy.deepcopy(body_no_doc(callee.node)), True, False)
        if any(isinstance(n, (ast.Yield, ast.YieldFrom, ast.FunctionDef, ast.Lambda, ast.Try, ast.With, ast.For, ast.While)) for s in body for n in ast.walk(s)):
            return None
        rets = [n for s in body for n in ast.walk(s) if isinstance(n, ast.Return)]
        if not rets or any(n.value is None or self._token(n.value) is None for n in rets):
            return None
        if want[0] == 'member' and not any(self._token(n.value) == want for n in rets) and not all(self._token(n.value)[0] == 'member' for n in rets):
            return None

        def ends(block):
            if not block:
                return False
            last = block[-1]
            if isinstance(last, (ast.Return, ast.Raise)):
                return True
            if isinstance(last, ast.If):
                return ends(last.body) and ends(last.orelse)
            return False

        def tail_only(block, tail):
            for i_, s_ in enumerate(block):
                last = i_ == len(block) - 1
                if isinstance(s_, ast.Return) and not (tail and last):
                    return False
                if isinstance(s_, ast.If) and not (tail_only(s_.body, tail and last) and tail_only(s_.orelse, tail and last)):
                    return False
            return True
        if not ends(body) or not tail_only(body, True):
            return None

        class M(ast.NodeTransformer):
            def visit_Return(self_, n):
                return ast.copy_location(ast.Expr(value=ast.Call(func=ast.Name(id='__ret__', ctx=ast.Load()), args=[n.value], keywords=[])), n)
        marked = [M().visit(s) for s in body]
        out = self.stmt_helper(ast.copy_location(ast.Expr(value=l), st), depth, forced=(callee, is_method, marked, {}))
        if out is None:
            return None
        me = self

        def put(stmts):
            res = []
            for s in stmts:
                if isinstance(s, ast.Expr) and isinstance(s.value, ast.Call) and isinstance(s.value.func, ast.Name) and s.value.func.id == '__ret__':
                    hit = (me._token(s.value.args[0]) == want) != negate
                    res.extend(me.block(copy.deepcopy(st.body if hit else st.orelse), depth))
                    continue
                for field in ('body', 'orelse', 'finalbody'):
                    blk = getattr(s, field, None)
                    if isinstance(blk, list) and blk and isinstance(blk[0], ast.stmt):
                        setattr(s, field, put(blk) or [ast.copy_location(ast.Pass(), s)])
                res.append(s)
            return res

        def tidy(stmts):
            # arms left empty by the replacement: `if c: pass else: X` -> `if not c: X`; an `if` with nothing in either arm goes
            res = []
            for s in stmts:
                if isinstance(s, ast.If):
                    s.body, s.orelse = tidy(s.body), tidy(s.orelse)
                    nothing = lambda b: all(isinstance(x, ast.Pass) for x in b)      # noqa: E731
                    if nothing(s.body) and nothing(s.orelse):
                        if any(isinstance(n, ast.Call) for n in ast.walk(s.test)):
                            res.append(ast.copy_location(ast.Expr(value=s.test), s))
                        continue
                    if nothing(s.body):
                        t_ = s.test.operand if isinstance(s.test, ast.UnaryOp) and isinstance(s.test.op, ast.Not) else ast.copy_location(ast.UnaryOp(op=ast.Not(), operand=s.test), s.test)
                        s.test, s.body, s.orelse = t_, s.orelse, []
                    elif nothing(s.orelse):
                        s.orelse = []
                res.append(s)
            return res
        new = tidy(put(out))
        for s_ in new:
            ast.fix_missing_locations(s_)
        return new

    def stmt_helper(self, st, depth, forced=None):
        """-> list of statements replacing st, or None"""
        if depth <= 0:
            return None
        if isinstance(st, ast.For) and forced is None:
            return self.gen_loop(st, depth)
        if isinstance(st, ast.If) and forced is None:
            return self.cond_helper(st, depth)
        call, target, is_ret = None, None, False
        if isinstance(st, ast.Expr) and isinstance(st.value, ast.Call):
            call = st.value
        elif isinstance(st, ast.Assign) and len(st.targets) == 1 and isinstance(st.value, ast.Call) and isinstance(st.targets[0], (ast.Name, ast.Attribute, ast.Subscript, ast.Tuple)):
            call, target = st.value, st.targets[0]
        elif isinstance(st, ast.Return) and isinstance(st.value, ast.Call):
            call, is_ret = st.value, True
        if call is None:
            return None
        share = {}
        if forced is not None:
            callee, is_method, body, share = forced
        else:
            callee, is_method = resolve_helper(self.prog, self.f, call, self.skip)
            if callee is None:
                return None
            body = body_no_doc(callee.node)
        if not body:
            return None
        rets = [n for s in body for n in ast.walk(s) if isinstance(n, ast.Return)]
        last_ret = body[-1] if isinstance(body[-1], ast.Return) else None
        tail_call = False
        if len(rets) > (1 if last_ret is not None else 0):
            if not is_ret or forced is not None:
                return None            # early returns: not spliceable
            # `return helper(...)`: in tail position every `return e` of the helper is a return of the caller
            tail_call = True
            last_ret = None
        if any(isinstance(n, (ast.Yield, ast.YieldFrom, ast.Global, ast.Nonlocal, ast.FunctionDef, ast.ClassDef, ast.Lambda)) for s in body for n in ast.walk(s)):
            return None
        if len(body) == 1 and last_ret is not None:
            return None            # expression helper: handled by rewrite_exprs
        b = bind(callee, call, is_method)
        if b is None:
            return None
        if '__nva__' in b:
            k_ = b.pop('__nva__').value
            body = [_ExpandStar(callee.node.args.vararg.arg, k_).visit(copy.deepcopy(s_)) for s_ in body]
            last_ret = body[-1] if isinstance(body[-1], ast.Return) and not tail_call else None
        core = body[:-1] if last_ret is not None else body
        rebound = assigned_names(core)
        self.counter += 1
        tag = f'_h{self.counter}_'
        mapping = {}
        pre = []
        params = set(b)
        for p, arg in b.items():
            if p in rebound:
                if isinstance(arg, ast.Name) and target is not None and isinstance(target, ast.Name) and target.id == arg.id and last_ret is not None \
                        and isinstance(last_ret.value, ast.Name) and last_ret.value.id == p:
                    mapping[p] = arg.id          # x = helper(p=x) with `return p`: the helper works on x itself
                else:
                    mapping[p] = tag + p
                    pre.append(ast.Assign(targets=[ast.Name(id=tag + p, ctx=ast.Store())], value=copy.deepcopy(arg)))
            elif is_simple(arg):
                mapping[p] = arg
            else:
                mapping[p] = tag + p
                pre.append(ast.Assign(targets=[ast.Name(id=tag + p, ctx=ast.Store())], value=copy.deepcopy(arg)))
        for n in rebound - params:
            mapping[n] = share.get(n, tag + n)
        # `target = helper(...)` with `return local`: the helper's local *is* the caller's target
        if last_ret is not None and isinstance(last_ret.value, ast.Name) and last_ret.value.id in (rebound - params) and isinstance(target, ast.Name) \
                and target.id not in {n_.id for s_ in core for n_ in ast.walk(s_) if isinstance(n_, ast.Name)}:
            mapping[last_ret.value.id] = target.id
        out = list(pre)
        sub = Subst(mapping)
        for s in core:
            out.append(sub.visit(copy.deepcopy(s)))
        if last_ret is not None and last_ret.value is not None:
            val = sub.visit(copy.deepcopy(last_ret.value))
            if is_ret:
                out.append(ast.Return(value=val))
            elif target is not None:
                if isinstance(target, ast.Tuple) and isinstance(val, ast.Tuple) and len(target.elts) == len(val.elts) \
                        and all(isinstance(t_, ast.Name) for t_ in target.elts) and all(isinstance(v_, ast.Name) for v_ in val.elts) \
                        and not ({t_.id for t_ in target.elts} & {v_.id for v_ in val.elts}):
                    # `a, b = helper()` with `return x, y`: two plain bindings (no name is both read and written)
                    for t_, v_ in zip(target.elts, val.elts):
                        out.append(ast.Assign(targets=[copy.deepcopy(t_)], value=v_))
                elif not (isinstance(target, ast.Name) and isinstance(val, ast.Name) and val.id == target.id):
                    out.append(ast.Assign(targets=[copy.deepcopy(target)], value=val))
            # call used as a statement: value dropped
        elif target is not None:
            out.append(ast.Assign(targets=[copy.deepcopy(target)], value=ast.Constant(value=None)))
        elif is_ret and not (tail_call and out and isinstance(out[-1], (ast.Return, ast.Raise))):
            out.append(ast.Return(value=None))
        for s in out:
            ast.copy_location(s, st)
            ast.fix_missing_locations(s)
        self.inlined.append(callee.key)
        return self.block(out, depth - 1)

    def hoist_head_call(self, st):
        """`t = self._helper(x).astype(p)`: a statement-bodied helper called where the evaluation of the right-hand side starts
        (receiver of a method call / attribute, left operand, subscripted value) is bound to a local first - nothing is evaluated
        before it, so the order of effects is unchanged.  -> [binding, rewritten statement] or None"""
        if not isinstance(st, (ast.Assign, ast.Return, ast.Expr)) or st.value is None:
            return None
        path, cur, par, fld = [], st.value, st, 'value'
        found = None
        while True:
            if isinstance(cur, ast.Call):
                if par is not st:
                    callee, _ = resolve_helper(self.prog, self.f, cur, self.skip)
                    if callee is not None:
                        b_ = body_no_doc(callee.node)
                        if len(b_) > 1 and not any(isinstance(n, (ast.Yield, ast.YieldFrom)) for s_ in b_ for n in ast.walk(s_)):
                            found = (cur, par, fld)
                if isinstance(cur.func, ast.Attribute):
                    par, fld, cur = cur.func, 'value', cur.func.value
                    continue
                break
            if isinstance(cur, ast.Attribute):
                par, fld, cur = cur, 'value', cur.value
            elif isinstance(cur, ast.BinOp):
                par, fld, cur = cur, 'left', cur.left
            elif isinstance(cur, ast.Subscript):
                par, fld, cur = cur, 'value', cur.value
            else:
                break
        if found is None:
            return None
        call, par, fld = found
        self.counter += 1
        name = f'_hv{self.counter}'
        bind_ = ast.copy_location(ast.Assign(targets=[ast.Name(id=name, ctx=ast.Store())], value=call), st)
        setattr(par, fld, ast.copy_location(ast.Name(id=name, ctx=ast.Load()), call))
        ast.fix_missing_locations(bind_)
        return [bind_, st]

    def block(self, stmts, depth):
        out = []
        stmts = list(stmts)
        i_ = 0
        while i_ < len(stmts):            # head calls of statement-bodied helpers become statements of their own
            h_ = self.hoist_head_call(stmts[i_]) if depth > 0 else None
            if h_ is not None:
                stmts[i_:i_ + 1] = h_
                continue
            i_ += 1
        for st in stmts:
            rep = self.stmt_helper(st, depth)
            if rep is not None:
                out.extend(rep)
                continue
            for field in ('body', 'orelse', 'finalbody'):
                blk = getattr(st, field, None)
                if isinstance(blk, list) and blk and isinstance(blk[0], ast.stmt):
                    setattr(st, field, self.block(blk, depth))
            if isinstance(st, ast.Try):
                for h in st.handlers:
                    h.body = self.block(h.body, depth)
            out.append(st)
        return out

    def run(self):
        node = copy.deepcopy(self.f.node)
        node.body = self.block(node.body, self.depth)
        node = self.rewrite_exprs(node, self.depth)
        # statements produced by expression rewriting may again be statement-level helper calls
        node.body = self.block(node.body, 1)
        # a local closure whose every call was inlined is dead: drop its definition (rules that scan statements would read it twice)
        for st in list(node.body):
            if isinstance(st, ast.FunctionDef) and not any(isinstance(n, ast.Name) and n.id == st.name and isinstance(n.ctx, ast.Load)
                                                           for other in node.body if other is not st for n in ast.walk(other)):
                if any(k.endswith('.' + st.name) or k.endswith(':' + st.name) or k.split('.')[-1] == st.name for k in self.inlined):
                    node.body.remove(st)
        ast.fix_missing_locations(node)
        return node


_cache = {}


def inlined(prog, f, depth=2, skip=()):
    """a Func-like copy of f with helpers inlined (same key, mod, cls; `.node` replaced); f itself when nothing was inlined"""
    _cache = prog.__dict__.setdefault('_inline_cache', {})     # per program instance (ids of dead programs are reused)
    k = (f.key, id(f.node), depth, tuple(sorted(skip)))
    if k in _cache:
        return _cache[k]
    from . import normalize as _nz            # read-only single-return properties are expanded first (derived quantities)
    pre = _nz.expand_properties(prog, f, copy.deepcopy(f.node))
    props = norm(pre) != norm(f.node)
    if props:
        f_ = copy.copy(f)
        f_.node = pre
    else:
        f_ = f
    inl = Inliner(prog, f_, depth, skip)
    node = inl.run()
    if not inl.inlined and not props:
        _cache[k] = f
        return f
    node = _nz.scalar_replace_records(prog, f, node)     # small records passed between the inlined stages
    g = copy.copy(f)
    g.node = node
    g.inlined_helpers = list(inl.inlined)
    _cache[k] = g
    return g


def inline_in_place(prog, f, skip=(), depth=2):
    """replace f.node of *this* Program instance by its inlined form (for engines that resolve functions through the program
    model, e.g. the path enumerator); returns the helper keys inlined"""
    g = inlined(prog, f, depth=depth, skip=skip)
    if g is not f:
        f.node = g.node
        helpers = list(getattr(g, 'inlined_helpers', []))
        f.inlined_helpers = helpers
        return helpers
    return list(getattr(f, 'inlined_helpers', []))
