"""E3 - axis-role typing for the numpy subset used by the distinguishers.

An array type is a tuple of axis labels (N traces, S samples, W words, G guesses, P classes, B bins, '1' broadcast,
'?' unknown, products 'P*W' in C order - major first -, primed X' = masked subset of X).  Integers have a kind:
Dim(L) = extent of axis L, Idx(L) = position on axis L, Scal = plain number.  Obligations are generated where two known
labels meet: accumulate (+=), element store, broadcasting, contraction, mask/index applied to an axis, zip, return layout.
A definite clash of two *known* labels is a violation; anything unknown is TOP and produces no obligation.
"""
import ast

from .model import norm, AnalysisError, self_attr, const_value


class Arr:
    def __init__(self, labels, mask_of=None, elem=None):
        self.labels = tuple(labels)
        self.mask_of = mask_of     # boolean mask computed over this axis label (rank-1 masks)
        self.elem = elem           # kind of the elements when used as an index: label of the axis they index, or None

    def __repr__(self):
        return '(' + ','.join(self.labels) + ')' + (f'[mask {self.mask_of}]' if self.mask_of else '')

    def __eq__(self, o):
        return isinstance(o, Arr) and o.labels == self.labels

    def __hash__(self):
        return hash(self.labels)


class Dim:
    def __init__(self, label):
        self.label = label

    def __repr__(self):
        return f'|{self.label}|'


class Idx:
    def __init__(self, label):
        self.label = label

    def __repr__(self):
        return f'idx<{self.label}>'


class Shape:
    def __init__(self, labels):
        self.labels = tuple(labels)

    def __repr__(self):
        return 'shape' + repr(self.labels)


class Tup:
    def __init__(self, elems):
        self.elems = list(elems)

    def __repr__(self):
        return 'tuple' + repr(self.elems)


class Scal:
    def __repr__(self):
        return 'scalar'


class Lst:
    """a python list filled by `.append(v)` in a loop over one axis (opt-in: Typer.squeezers is not None)"""
    def __init__(self, elem=None, axis=None, node=None):
        self.elem, self.axis, self.node = elem, axis, node

    def __repr__(self):
        return f'list[{self.elem} over {self.axis}]'


class Top:
    def __repr__(self):
        return 'T'


TOP = Top()
SCAL = Scal()


def known(l):
    return l not in ('?',) and not l.startswith('?')


def base(l):
    return l.rstrip("'")


FROZEN_ATTRS = {'partitions', 'bins_number', 'templates', 'pooled_covariance_inv'}


class Typer:
    def __init__(self, prog, cls, rule, sink, attrs=None, depth=0):
        self.prog = prog
        self.cls = cls
        self.rule = rule
        self.sink = sink            # callable(status, func, node, detail)
        self.attrs = attrs if attrs is not None else {}
        self.depth = depth
        self.func = None
        self.env = {}
        self.expected_return = None
        self.returns = []
        self.lut_attrs = set()
        self.class_const_index = []      # (func, node, axis label) constant positions used on an axis
        self.reduced_axes = []           # (func, node, axis label) reductions
        self.class_axis_selections = []  # (func, node, axis label) selections (mask / index / partial slice) along the class axis
        self.squeezers = None            # opt-in (C07-D2): keys of repository functions whose result is `.squeeze()`d (the batch axis of a
        #                                  one-row argument disappears); enables list / stack tracking
        self.loop_axes = []

    # ------------------------------------------------------------------ reporting
    def ok(self, node, detail):
        self.sink('ok', self.func, node, detail)

    def bad(self, node, detail):
        self.sink('bad', self.func, node, detail)

    # ------------------------------------------------------------------ running
    def run(self, func, env, expected_return=None):
        saved = (self.func, self.env, self.expected_return, self.returns)
        self.func, self.env, self.expected_return, self.returns = func, dict(env), expected_return, []
        try:
            self.block(func.node.body)
            rets = self.returns
        finally:
            self.func, self.env, self.expected_return, self.returns = saved
        out = None
        for r in rets:
            if out is None:
                out = r
            elif isinstance(out, Arr) and isinstance(r, Arr) and out.labels == r.labels:
                pass
            else:
                out = TOP
        return out if out is not None else TOP

    def block(self, stmts):
        for st in stmts:
            self.stmt(st)

    def stmt(self, st):
        if isinstance(st, ast.Assign):
            v = self.ev(st.value)
            for t in st.targets:
                self.assign(t, v, st)
        elif isinstance(st, ast.AugAssign):
            self.augassign(st)
        elif isinstance(st, ast.For):
            lab = self.bind_loop(st)
            self.loop_axes.append(lab)
            try:
                self.block(st.body)
            finally:
                self.loop_axes.pop()
        elif isinstance(st, ast.While):
            self.block(st.body)
        elif isinstance(st, ast.If):
            self.ev(st.test)
            e0 = dict(self.env)
            self.block(st.body)
            e1 = self.env
            self.env = dict(e0)
            self.block(st.orelse)
            e2 = self.env
            merged = {}
            for k in set(e1) | set(e2):
                a, b = e1.get(k), e2.get(k)
                if a is None or b is None:
                    merged[k] = a if b is None else b
                elif type(a) is type(b) and repr(a) == repr(b):
                    merged[k] = a
                else:
                    merged[k] = TOP
            self.env = merged
        elif isinstance(st, ast.Return):
            v = self.ev(st.value) if st.value is not None else SCAL
            self.returns.append(v)
            if self.expected_return is not None and isinstance(v, Arr):
                exp = tuple(self.expected_return)
                if all(known(l) for l in v.labels):
                    if tuple(base(l) for l in v.labels) == exp:
                        self.ok(st, f'returns layout {v} as documented ({",".join(exp)})')
                    else:
                        self.bad(st, f'returns an array laid out {v}; the documented result layout is ({",".join(exp)})')
        elif isinstance(st, ast.Expr):
            self.ev(st.value)
        elif isinstance(st, ast.With):
            self.block(st.body)
        elif isinstance(st, ast.Try):
            self.block(st.body)
            for h in st.handlers:
                self.block(h.body)
            self.block(st.finalbody)

    def bind_loop(self, st):
        it = st.iter
        t = st.target
        if isinstance(it, ast.Call) and norm(it.func).split('.')[-1] in ('range', 'prange', 'arange'):
            a = self.ev(it.args[-1] if len(it.args) == 1 else it.args[1]) if it.args else TOP
            if isinstance(t, ast.Name):
                self.env[t.id] = Idx(a.label) if isinstance(a, Dim) else Idx('?')
            return a.label if isinstance(a, Dim) else None
        if isinstance(it, ast.Call) and norm(it.func) == 'enumerate' and isinstance(t, ast.Tuple) and len(t.elts) == 2:
            inner = it.args[0]
            first = self.iter_elem(inner, t.elts[1], st)
            if isinstance(t.elts[0], ast.Name):
                self.env[t.elts[0].id] = Idx(first) if first else Idx('?')
            return first
        first = self.iter_elem(it, t, st)
        return first

    def iter_elem(self, it, target, st):
        """bind `target` to the elements of iterable `it`; returns the label of the iterated (first) axis or None"""
        if isinstance(it, ast.Call) and norm(it.func) == 'zip':
            firsts = []
            elems = []
            for a in it.args:
                v = self.ev(a)
                if isinstance(v, Arr) and v.labels:
                    firsts.append(v.labels[0])
                    elems.append(Arr(v.labels[1:]) if len(v.labels) > 1 else SCAL)
                else:
                    firsts.append(None)
                    elems.append(TOP)
            kn = [f for f in firsts if f and known(f)]
            if len(kn) >= 2:
                if len({base(f) for f in kn}) == 1:
                    self.ok(st, f'zip pairs arrays over the same axis {kn[0]}')
                else:
                    self.bad(st, f'zip pairs arrays over different axes {kn}: elements of unrelated axes are combined')
            if isinstance(target, ast.Tuple) and len(target.elts) == len(elems):
                for t, e in zip(target.elts, elems):
                    if isinstance(t, ast.Name):
                        self.env[t.id] = e
            return kn[0] if kn else None
        v = self.ev(it)
        if isinstance(v, Arr) and v.labels:
            if isinstance(target, ast.Name):
                self.env[target.id] = Arr(v.labels[1:]) if len(v.labels) > 1 else SCAL
            return v.labels[0]
        if isinstance(target, ast.Name):
            self.env[target.id] = TOP
        elif isinstance(target, ast.Tuple):
            for t in target.elts:
                if isinstance(t, ast.Name):
                    self.env[t.id] = TOP
        return None

    def assign(self, t, v, st):
        if isinstance(t, ast.Name):
            val = st.value if isinstance(st, ast.Assign) else None
            if isinstance(val, ast.Subscript) and isinstance(val.value, (ast.List, ast.Tuple)) and self.cls is not None and all(
                    isinstance(x, ast.Attribute) and norm(x.value) == 'self' for x in val.value.elts):
                cands = [self.prog.resolve_method(self.cls, x.attr) for x in val.value.elts]
                if all(c is not None for c in cands):
                    self.env[t.id] = ('funcs', cands)
                    return
            self.env[t.id] = v
        elif isinstance(t, ast.Attribute) and isinstance(t.value, ast.Name) and t.value.id == 'self':
            if t.attr in FROZEN_ATTRS and t.attr in self.attrs:
                return       # semantic seed (documented role of the attribute): not overwritten by a less informative value
            self.attrs[t.attr] = v
        elif isinstance(t, ast.Tuple):
            if isinstance(v, Tup) and len(v.elems) == len(t.elts):
                for x, y in zip(t.elts, v.elems):
                    self.assign(x, y, st)
            else:
                for x in t.elts:
                    self.assign(x, TOP, st)
        elif isinstance(t, ast.Subscript):
            tv = self.index(t, store=True, value=v)
            if isinstance(tv, Arr) and isinstance(v, Arr):
                self.store_compat(st, tv, v, 'element store')

    def store_compat(self, st, tv, v, what):
        """value v must broadcast to the target slot tv without changing it"""
        lt, lv = list(tv.labels), list(v.labels)
        if len(lv) > len(lt):
            if all(known(x) for x in lt + lv):
                self.bad(st, f'{what}: value laid out {v} does not fit the target slot {tv}')
            return
        lv = ['1'] * (len(lt) - len(lv)) + lv
        clash = None
        decided = True
        for a, b in zip(lt, lv):
            if b == '1' or base(a) == base(b):
                continue
            if known(a) and known(b):
                clash = (a, b)
            else:
                decided = False
        if clash:
            self.bad(st, f'{what}: axis {clash[1]} of the value meets axis {clash[0]} of the target ({v} into {tv}): the layouts do not agree')
        elif decided and lt:
            self.ok(st, f'{what}: {v} fits {tv}')

    def augassign(self, st):
        tv = self.ev(st.target) if not isinstance(st.target, ast.Subscript) else self.index(st.target, store=True)
        v = self.ev(st.value)
        if isinstance(tv, Arr) and isinstance(v, Arr):
            self.store_compat(st, tv, v, f'accumulate {type(st.op).__name__}')
        if isinstance(st.target, ast.Name) and isinstance(tv, Arr) and isinstance(v, Arr):
            self.env[st.target.id] = self.bcast(st, tv, v, quiet=True)

    # ------------------------------------------------------------------ expressions
    def ev(self, e):
        if e is None:
            return TOP
        if isinstance(e, ast.Constant):
            return SCAL
        if isinstance(e, ast.Name):
            return self.env.get(e.id, TOP)
        if isinstance(e, ast.Attribute):
            if isinstance(e.value, ast.Name) and e.value.id == 'self':
                if e.attr in self.attrs:
                    return self.attrs[e.attr]
                g = self.prog.resolve_getter(self.cls, e.attr) if self.cls is not None else None
                if g is not None and ('_' + e.attr) in self.attrs:
                    return self.attrs['_' + e.attr]
                return TOP
            v = self.ev(e.value)
            if e.attr == 'T' and isinstance(v, Arr):
                return Arr(v.labels[::-1], elem=v.elem)
            if e.attr == 'shape' and isinstance(v, Arr):
                return Shape(v.labels)
            if e.attr in ('dtype', 'ndim', 'size', 'itemsize'):
                return SCAL
            if e.attr in ('real', 'imag') and isinstance(v, Arr):
                return v
            return TOP
        if isinstance(e, ast.List) and not e.elts and self.squeezers is not None:
            return Lst()
        if isinstance(e, ast.Tuple) or isinstance(e, ast.List):
            return Tup([self.ev(x) for x in e.elts])
        if isinstance(e, ast.UnaryOp):
            return self.ev(e.operand)
        if isinstance(e, ast.BinOp):
            a, b = self.ev(e.left), self.ev(e.right)
            if isinstance(e.op, ast.MatMult):
                return self.matmul(e, a, b)
            if isinstance(a, Tup) and isinstance(b, Tup) and isinstance(e.op, ast.Add):
                return Tup(a.elems + b.elems)
            if isinstance(a, Shape) and isinstance(b, Tup) and isinstance(e.op, ast.Add):
                return Tup([Dim(l) for l in a.labels] + b.elems)
            if isinstance(a, Tup) and isinstance(b, Shape) and isinstance(e.op, ast.Add):
                return Tup(a.elems + [Dim(l) for l in b.labels])
            if isinstance(a, Dim) and isinstance(b, Dim) and isinstance(e.op, ast.Mult):
                return Dim('{' + ','.join(sorted([a.label, b.label])) + '}')
            if isinstance(a, (Dim, Idx)) and isinstance(b, (Dim, Idx, Scal)) or isinstance(b, (Dim, Idx)) and isinstance(a, Scal):
                return SCAL
            if a is TOP or b is TOP:
                return TOP
            return self.bcast(e, a, b)
        if isinstance(e, ast.Compare):
            a, b = self.ev(e.left), self.ev(e.comparators[0])
            r = self.bcast(e, a, b) if (isinstance(a, Arr) or isinstance(b, Arr)) else SCAL
            if isinstance(r, Arr) and len(r.labels) == 1:
                r = Arr(r.labels, mask_of=r.labels[0])
            return r
        if isinstance(e, ast.BoolOp):
            vs = [self.ev(v) for v in e.values]
            return vs[0] if vs else TOP
        if isinstance(e, ast.Subscript):
            return self.index(e)
        if isinstance(e, ast.Call):
            return self.call(e)
        if isinstance(e, ast.IfExp):
            a, b = self.ev(e.body), self.ev(e.orelse)
            return a if repr(a) == repr(b) else TOP
        if isinstance(e, ast.Starred):
            return TOP
        return TOP

    def bcast(self, node, a, b, quiet=False):
        if not isinstance(a, Arr):
            return b if isinstance(b, Arr) else (SCAL if (isinstance(a, (Scal, Dim, Idx)) and isinstance(b, (Scal, Dim, Idx))) else TOP)
        if not isinstance(b, Arr):
            return a if isinstance(b, (Scal, Dim, Idx)) else TOP
        la, lb = list(a.labels), list(b.labels)
        n = max(len(la), len(lb))
        la = ['1'] * (n - len(la)) + la
        lb = ['1'] * (n - len(lb)) + lb
        out = []
        clash = None
        decided = True
        for x, y in zip(la, lb):
            if base(x) == base(y) or y == '1':
                out.append(x)
            elif x == '1':
                out.append(y)
            elif known(x) and known(y):
                clash = (x, y)
                out.append(x)
            else:
                decided = False
                out.append(x if known(x) else y)
        if not quiet:
            if clash:
                self.bad(node, f'broadcasting aligns axis {clash[0]} with axis {clash[1]} in `{norm(node)[:70]}` ({a} with {b}): '
                               f'elements of unrelated axes are combined (invisible when the two extents happen to be equal)')
            elif decided and n and (len(a.labels) > 0 and len(b.labels) > 0):
                self.ok(node, f'broadcast {a} with {b}')
        return Arr(out, elem=a.elem)

    def matmul(self, node, a, b):
        if not (isinstance(a, Arr) and isinstance(b, Arr)) or not a.labels or not b.labels:
            return TOP
        ka = a.labels[-1]
        kb = b.labels[-2] if len(b.labels) > 1 else b.labels[0]
        if known(ka) and known(kb):
            if base(ka) == base(kb):
                self.ok(node, f'contraction over {ka}: {a} . {b}')
            else:
                self.bad(node, f'`{norm(node)[:70]}` contracts axis {ka} of {a} with axis {kb} of {b}: not the same axis')
        return Arr(a.labels[:-1] + (b.labels[-1:] if len(b.labels) > 1 else ()))

    def axis_arg(self, e, rank, name='axis', pos=None):
        ax = None
        for k in e.keywords:
            if k.arg == name:
                ax = k.value
        if ax is None and pos is not None and len(e.args) > pos:
            ax = e.args[pos]
        if ax is None:
            return None, False
        c = const_value(ax)
        if isinstance(c, int):
            return (c if c >= 0 else rank + c), True
        v = self.ev(ax)
        if isinstance(v, Idx) and v.label.startswith('axis='):
            return int(v.label[5:]), True
        return None, True

    def reduce(self, node, v, pos_axis):
        if not isinstance(v, Arr):
            return TOP
        ax, given = self.axis_arg(node, len(v.labels), pos=pos_axis)
        if not given:
            return SCAL
        if ax is None or ax >= len(v.labels):
            return TOP
        keep = any(k.arg == 'keepdims' and const_value(k.value) for k in node.keywords)
        lab = v.labels[ax]
        self.sink('note', self.func, node, f'reduces axis {lab} of {v}')
        self.reduced_axes.append((self.func, node, lab))
        self.reductions.append((self.func, node, lab, v)) if hasattr(self, 'reductions') else None
        if keep:
            return Arr(v.labels[:ax] + ('1',) + v.labels[ax + 1:])
        return Arr(v.labels[:ax] + v.labels[ax + 1:])

    def shape_labels(self, t):
        if isinstance(t, Dim):
            return [t.label]
        if isinstance(t, Shape):
            return list(t.labels)
        if isinstance(t, Tup):
            out = []
            for x in t.elems:
                if isinstance(x, Dim):
                    out.append(x.label)
                elif isinstance(x, Scal):
                    out.append('?c')
                else:
                    out.append('?')
            return out
        if isinstance(t, Scal):
            return ['?c']
        return None

    def index(self, e, store=False, value=None):
        v = self.ev(e.value)
        if isinstance(v, Shape):
            k = const_value(e.slice)
            if isinstance(k, int) and -len(v.labels) <= k < len(v.labels):
                return Dim(v.labels[k])
            if isinstance(e.slice, ast.Slice):
                lo = const_value(e.slice.lower) if e.slice.lower is not None else 0
                hi = const_value(e.slice.upper) if e.slice.upper is not None else len(v.labels)
                if isinstance(lo, int) and isinstance(hi, int):
                    return Shape(v.labels[lo:hi])
            return TOP
        if isinstance(v, Tup):
            k = const_value(e.slice)
            if isinstance(k, int) and -len(v.elems) <= k < len(v.elems):
                return v.elems[k]
            return TOP
        if not isinstance(v, Arr):
            if v is TOP and isinstance(e.value, ast.Name) and e.value.id not in self.env and not isinstance(e.slice, (ast.Tuple, ast.Slice)) \
                    and self.func is not None and e.value.id in self.func.mod.assigns:
                # lookup in a module-level (1-D) table: the result is laid out like the index array
                iv = self.ev(e.slice)
                return Arr(iv.labels) if isinstance(iv, Arr) else TOP
            return TOP
        items = list(e.slice.elts) if isinstance(e.slice, ast.Tuple) else [e.slice]
        labels = list(v.labels)
        n_real = sum(1 for i in items if not (isinstance(i, ast.Constant) and (i.value is None or i.value is Ellipsis)))
        out = []
        pos = 0
        for it in items:
            if isinstance(it, ast.Constant) and it.value is None:
                out.append('1')
                continue
            if isinstance(it, ast.Constant) and it.value is Ellipsis:
                skip = len(labels) - n_real
                out += labels[pos:pos + skip]
                pos += skip
                continue
            if pos >= len(labels):
                return TOP
            axis = labels[pos]
            if base(axis) == 'P' and not (isinstance(it, ast.Slice) and it.lower is None and it.upper is None and it.step is None):
                self.class_axis_selections.append((self.func, e, axis))
            if isinstance(it, ast.Slice):
                out.append(self.slice_label(e, it, axis, store))
                pos += 1
                continue
            t = self.ev(it)
            if isinstance(t, Arr):
                if t.mask_of is not None and len(t.labels) == 1:
                    if known(axis) and known(t.mask_of):
                        if base(axis) == base(t.mask_of):
                            self.ok(e, f'mask computed over axis {t.mask_of} selects along axis {axis}')
                        else:
                            self.bad(e, f'a mask computed over axis {t.mask_of} is applied to axis {axis} in `{norm(e)[:60]}`')
                    out.append(base(axis) + "'")
                else:
                    if t.elem is not None and known(axis) and known(t.elem):
                        if base(t.elem) == base(axis):
                            self.ok(e, f'index array holds positions on axis {t.elem}, applied to axis {axis}')
                        else:
                            self.bad(e, f'index array holds positions on axis {t.elem} but is applied to axis {axis} in `{norm(e)[:60]}`')
                    out += list(t.labels)
                pos += 1
                continue
            if isinstance(it, (ast.Constant, ast.UnaryOp)) and isinstance(const_value(it), int):
                self.class_const_index.append((self.func, e, axis))
            if isinstance(t, Idx):
                if known(axis) and known(t.label) and not t.label.startswith('axis='):
                    if base(axis) == base(t.label):
                        self.ok(e, f'position on axis {t.label} indexes axis {axis}')
                    else:
                        self.bad(e, f'`{norm(it)}` is a position on axis {t.label} but indexes axis {axis} in `{norm(e)[:60]}`')
            pos += 1       # scalar index drops the axis
        out += labels[pos:]
        if not out:
            if v.elem is not None:
                return Idx(v.elem)
            return SCAL
        return Arr(out, elem=v.elem)

    def slice_label(self, e, sl, axis, store):
        """a plain slice keeps the axis; `p*D : (p+1)*D` with p a position on axis P and D = |W| selects block p of a product
        axis laid out P-major, i.e. the slot has label W and the array's product axis is P*W."""
        if sl.lower is None and sl.upper is None:
            return axis
        lo, hi = sl.lower, sl.upper

        def split(m):
            """m = A * B with A a position, B an extent -> (A node, A type, B type)"""
            if not (isinstance(m, ast.BinOp) and isinstance(m.op, ast.Mult)):
                return None
            l, r = self.ev(m.left), self.ev(m.right)
            if isinstance(r, Dim):
                return m.left, l, r
            if isinstance(l, Dim):
                return m.right, r, l
            return None
        a, b = split(lo) if lo is not None else None, split(hi) if hi is not None else None
        if a and b and isinstance(a[1], Idx) and a[2].label == b[2].label and isinstance(b[0], ast.BinOp) \
                and isinstance(b[0].op, ast.Add) and const_value(b[0].right) == 1 and norm(b[0].left) == norm(a[0]):
            major, minor = a[1].label, a[2].label
            want = '{' + ','.join(sorted([major, minor])) + '}'
            if axis in (want, f'{major}*{minor}'):
                root = e.value
                if isinstance(root, ast.Name) and isinstance(self.env.get(root.id), Arr):
                    arr = self.env[root.id]
                    self.env[root.id] = Arr([f'{major}*{minor}' if l == axis else l for l in arr.labels], elem=arr.elem)
                self.ok(e, f'block {major} of the product axis {major}*{minor} (major first)')
                return minor
            if known(axis):
                self.bad(e, f'slice `{norm(sl)[:50]}` addresses blocks of a {major}*{minor} product axis but the axis is {axis}')
            return minor
        return axis

    def call(self, e):
        f = e.func
        d = self.prog.dotted(self.func.mod, f) if isinstance(f, (ast.Name, ast.Attribute)) else None
        last = (d or norm(f)).split('.')[-1]
        if self.squeezers is not None:
            r = self.call_lists(e, f, d, last)
            if r is not None:
                return r
        # numpy functions
        if d and d.startswith('numpy'):
            args = [self.ev(a) for a in e.args]
            a0 = args[0] if args else TOP
            if last in ('log', 'sqrt', 'abs', 'absolute', 'isinf', 'isnan', 'copy', 'square', 'exp', 'negative', 'conjugate',
                        'real', 'imag', 'asarray', 'ascontiguousarray', 'isfinite', 'ceil', 'floor'):
                return a0
            if last in ('sum', 'nansum', 'nanmax', 'nanmin', 'max', 'min', 'mean', 'nanmean', 'std', 'nanstd', 'var', 'any', 'all',
                        'count_nonzero', 'argmax', 'argmin', 'prod'):
                return self.reduce(e, a0, 1)
            if last in ('dot', 'matmul') and len(args) == 2:
                return self.matmul(e, args[0], args[1])
            if last == 'outer' and len(args) == 2 and isinstance(args[0], Arr) and isinstance(args[1], Arr):
                return Arr(args[0].labels[:1] + args[1].labels[:1])
            if last in ('zeros', 'empty', 'ones', 'full'):
                shp = e.args[0] if e.args else next((k.value for k in e.keywords if k.arg == 'shape'), None)
                t = self.ev(shp)
                l = self.shape_labels(t)
                return Arr(l) if l else TOP
            if last in ('zeros_like', 'empty_like', 'ones_like'):
                return a0
            if last in ('bitwise_xor', 'bitwise_and', 'bitwise_or', 'add', 'subtract', 'multiply', 'divide', 'power', 'maximum', 'minimum') and len(args) >= 2:
                return self.bcast(e, args[0], args[1]) if not (args[0] is TOP or args[1] is TOP) else TOP
            if last == 'swapaxes' and isinstance(a0, Arr) and len(e.args) == 3:
                return self.swap(e, a0, e.args[1], e.args[2])
            if last == 'where' and len(args) == 3:
                return args[2] if isinstance(args[2], Arr) else args[1]
            if last == 'array' and isinstance(a0, Tup):
                return Arr(['?']) if all(isinstance(x, (Scal, Dim, Idx)) or x is TOP for x in a0.elems) else TOP
            if last == 'arange' and args:
                a = args[-1] if len(args) == 1 else TOP
                return Arr([a.label], elem=a.label) if isinstance(a, Dim) else Arr(['?'])
            if last == 'pinv' or last == 'inv':
                return a0
            if last == 'flip':
                return a0
            if last == 'roll':
                return a0
            return TOP
        if isinstance(f, ast.Attribute) and isinstance(f.value, ast.Name) and f.value.id == 'self' and f.attr in self.lut_attrs and e.args:
            a = self.ev(e.args[0])
            return Arr(a.labels, elem='P') if isinstance(a, Arr) else TOP
        if isinstance(f, ast.Name) and isinstance(self.env.get(f.id), tuple) and self.env[f.id][0] == 'funcs':
            out = TOP
            for callee in self.env[f.id][1]:
                out = self.inline(callee, e)
            return out
        if isinstance(f, ast.Name) and f.id in self.env and isinstance(self.env[f.id], Scal) and e.args:
            return self.ev(e.args[0]) if not isinstance(self.ev(e.args[0]), Arr) else SCAL     # precision(x): scalar cast
        if isinstance(f, ast.Name):
            if f.id == 'len' and e.args:
                v = self.ev(e.args[0])
                if isinstance(v, Arr) and v.labels:
                    return Dim(v.labels[0])
                return SCAL
            if f.id in ('int', 'float', 'abs', 'min', 'max', 'sum', 'round'):
                return SCAL
            if f.id == 'range':
                return TOP
            if f.id in self.env and False:
                return TOP
        # array methods
        if isinstance(f, ast.Attribute) and not (d and d.startswith('scared.')) and not (
                isinstance(f.value, ast.Name) and f.value.id == 'self' and self.cls is not None and self.prog.resolve_method(self.cls, f.attr) is not None):
            v = self.ev(f.value)
            m = f.attr
            if isinstance(v, Arr):
                if m == 'swapaxes' and len(e.args) == 2:
                    return self.swap(e, v, e.args[0], e.args[1])
                if m in ('sum', 'mean', 'max', 'min', 'std', 'var', 'any', 'all', 'argmax', 'argmin', 'prod'):
                    return self.reduce(e, v, 0)
                if m in ('astype', 'copy', 'conj', 'conjugate', 'squeeze', 'round', 'clip'):
                    return v
                if m == 'dot' and e.args:
                    return self.matmul(e, v, self.ev(e.args[0]))
                if m == 'reshape':
                    return self.reshape(e, v)
                if m == 'transpose' and not e.args:
                    return Arr(v.labels[::-1], elem=v.elem)
            elif m == 'reshape' and len(e.args) == 1:
                # restore-the-remembered-shape idiom: x.reshape(<array>.shape) is laid out like that array
                t = self.ev(e.args[0])
                if isinstance(t, Shape) and all(known(l) for l in t.labels):
                    return Arr(t.labels)
            return TOP
        # repository functions / methods: inline
        callee = None
        if isinstance(f, ast.Attribute) and isinstance(f.value, ast.Name) and f.value.id == 'self' and self.cls is not None:
            callee = self.prog.resolve_method(self.cls, f.attr)
        elif d:
            r = self.prog.resolve(self.func.mod, f)
            if r and r[0] == 'func':
                callee = r[1]
        if callee is not None and self.depth < 4 and self.prog.numba_kind(callee)[0] != 'vectorize':
            return self.inline(callee, e)
        return TOP

    def call_lists(self, e, f, d, last):
        """opt-in part (C07-D2): lists filled per loop iteration and stacked afterwards; results of squeezing cipher entry points"""
        if isinstance(f, ast.Attribute) and f.attr == 'append' and isinstance(f.value, ast.Name) and isinstance(self.env.get(f.value.id), Lst) and len(e.args) == 1:
            v = self.ev(e.args[0])
            lab = self.loop_axes[-1] if self.loop_axes else None
            cur = self.env[f.value.id]
            if cur.elem is None and isinstance(v, Arr) and lab:
                self.env[f.value.id] = Lst(v, lab, e)
            elif not (isinstance(v, Arr) and isinstance(cur.elem, Arr) and cur.elem.labels == v.labels and cur.axis == lab):
                self.env[f.value.id] = Lst(TOP, None, e)
            return SCAL
        if d and d.startswith('numpy') and last in ('stack', 'array', 'asarray', 'vstack') and e.args and isinstance(e.args[0], ast.Name) and isinstance(self.env.get(e.args[0].id), Lst):
            lst = self.env[e.args[0].id]
            if not isinstance(lst.elem, Arr) or lst.axis is None:
                return TOP
            axis = 0
            for k in e.keywords:
                if k.arg == 'axis':
                    axis = const_value(k.value)
            if last == 'stack' and len(e.args) > 1:
                axis = const_value(e.args[1])
            if last == 'vstack' or not isinstance(axis, int):
                return TOP
            if getattr(lst.elem, 'fragile', None):
                self.bad(e, f'`{norm(e)[:70]}` stacks per-iteration results of {lst.elem.fragile}, which returns `.squeeze()`d arrays: for a batch of exactly one trace each result has '
                         f'lost its trace axis, so the stacked array is laid out ({",".join(lst.elem.labels[1:])},{lst.axis}) with the axes in other places than for larger batches')
            labels = list(lst.elem.labels)
            if axis < 0:
                axis += len(labels) + 1
            labels.insert(axis, lst.axis)
            return Arr(labels)
        if d and d.startswith('scared.') and isinstance(f, (ast.Name, ast.Attribute)):
            r = self.prog.resolve(self.func.mod, f)
            if r and r[0] == 'func' and r[1].key in self.squeezers and e.args:
                a0 = self.ev(e.args[0])
                if isinstance(a0, Arr) and len(a0.labels) == 2:
                    out = Arr(a0.labels)
                    out.fragile = r[1].name
                    return out
        return None

    def inline(self, callee, e):
        params = list(callee.params)
        static = any(norm(d) == 'staticmethod' for d in callee.node.decorator_list)
        if params and params[0] in ('self', 'cls') and callee.cls is not None and not static:
            params = params[1:]
        env = {}
        for i, a in enumerate(e.args):
            if i < len(params):
                env[params[i]] = self.ev(a)
        for k in e.keywords:
            if k.arg:
                v = self.ev(k.value)
                c = const_value(k.value)
                if k.arg == 'axis' and isinstance(c, int):
                    v = Idx(f'axis={c}')
                env[k.arg] = v
        for i, a in enumerate(e.args):
            if i < len(params) and params[i] == 'axis' and isinstance(const_value(a), int):
                env['axis'] = Idx(f'axis={const_value(a)}')
        sub = Typer(self.prog, self.cls, self.rule, self.sink, self.attrs, self.depth + 1)
        sub.lut_attrs = self.lut_attrs
        sub.squeezers = self.squeezers
        sub.class_const_index = self.class_const_index
        sub.reduced_axes = self.reduced_axes
        sub.class_axis_selections = self.class_axis_selections
        if hasattr(self, 'reductions'):
            sub.reductions = self.reductions
        return sub.run(callee, env)

    def swap(self, e, v, a, b):
        ia, ib = const_value(a), const_value(b)
        if not (isinstance(ia, int) and isinstance(ib, int)):
            return TOP
        n = len(v.labels)
        ia, ib = (ia if ia >= 0 else n + ia), (ib if ib >= 0 else n + ib)
        if ia >= n or ib >= n:
            return TOP
        l = list(v.labels)
        l[ia], l[ib] = l[ib], l[ia]
        return Arr(l, elem=v.elem)

    def reshape(self, e, v):
        t = self.ev(e.args[0]) if len(e.args) == 1 else Tup([self.ev(a) for a in e.args])
        tgt = self.shape_labels(t)
        if tgt is None:
            return TOP
        if not isinstance(v, Arr):
            return TOP
        flat = []
        for l in v.labels:
            flat += l.split('*') if '*' in l else [l]
        # (n, -1): flatten the trailing axes
        consts = [const_value(a) for a in (e.args[0].elts if len(e.args) == 1 and isinstance(e.args[0], ast.Tuple) else e.args)]
        if -1 in consts and len(tgt) == 2 and consts[1] == -1 and known(tgt[0]) and v.labels and base(tgt[0]) == base(v.labels[0]):
            rest = v.labels[1:]
            return Arr([v.labels[0], '*'.join(rest) if len(rest) > 1 else (rest[0] if rest else '1')], elem=v.elem)
        if all(known(x) and not x.startswith('{') for x in flat) and all(known(x) for x in tgt):
            if [base(x) for x in flat] == [base(x) for x in tgt]:
                self.ok(e, f'reshape splits {v} into {tuple(tgt)} in C order')
                return Arr(tgt, elem=v.elem)
            if sorted(base(x) for x in flat) == sorted(base(x) for x in tgt):
                self.bad(e, f'reshape of {v} to extents {tuple(tgt)}: in C order the axes come out as {tuple(flat)}, the elements are '
                            f'reinterpreted, not transposed (invisible when the extents are equal)')
                return Arr(tgt, elem=v.elem)
        return Arr(tgt, elem=v.elem) if all(known(x) for x in tgt) else TOP


def make_sink(ctx, rule, counter):
    def sink(status, func, node, detail):
        if status == 'note':
            return
        tag = detail.split(':')[0][:48] if status == 'ok' else detail[:48]
        key = f'{func.key}::{norm(node)[:100]} [{tag}]'
        counter[0] += 1
        if status == 'ok':
            ctx.ok(rule, key, detail, func.where(node))
        else:
            ctx.fail(rule, key, detail, func.where(node))
    return sink


# ------------------------------------------------------------------------------------------------ family driver
BASE_ATTRS = {
    'processed_traces': SCAL, 'precision': SCAL, 'partitions': Arr(('P',)), 'bins_number': Dim('B'),
    '_bin_edges': Arr(('?',)), 'templates': Arr(('P', 'S')), 'pooled_covariance': Arr(('S', 'S')),
    'pooled_covariance_inv': Arr(('S', 'S')), 'is_build': SCAL, '_is_checked': SCAL,
}
EXPECTED = {   # documented result layout of _compute per family (class defining _compute) - from the class docstrings
    'CPADistinguisherMixin': ('W', 'S'), 'CPAAlternativeDistinguisherMixin': ('W', 'S'), 'DPADistinguisherMixin': ('W', 'S'),
    'PartitionedDistinguisherMixin': ('W', 'S'), 'MIADistinguisherMixin': ('W', 'S'),
    '_TemplateBuildDistinguisherMixin': ('P', 'S'),
}


def check_class(ctx, prog, rule, ci, lut_attrs=(), phases=('_initialize', '_update', '_compute')):
    counter = [0]
    sink = make_sink(ctx, rule, counter)
    attrs = dict(BASE_ATTRS)
    ty = Typer(prog, ci, rule, sink, attrs)
    ty.lut_attrs = set(lut_attrs)
    seeds = {'traces': Arr(('N', 'S')), 'data': Arr(('N', 'W'))}
    for ph in phases:
        f = prog.resolve_method(ci, ph)
        if f is None or prog.is_abstract(f):
            continue
        if ph == '_compute':
            exp = EXPECTED.get(f.cls.name) if f.cls is not None else None
            ty.class_const_index.clear()
            ty.reduced_axes.clear()
            ty.run(f, {}, expected_return=exp)
            if exp == ('W', 'S'):
                # per-sample results: the value at sample s may depend on the state of sample s only
                bad = [(fn, node, 'is indexed at a constant position') for fn, node, ax in ty.class_const_index if base(ax) == 'S'] + \
                      [(fn, node, 'is reduced') for fn, node, ax in ty.reduced_axes if base(ax) == 'S']
                for fn, node, what in bad:
                    sink('bad', fn, node, f'the sample axis {what} in `{norm(node)[:60]}` while computing per-sample results: the result at one sample '
                                          f'depends on the state of other samples')
                if not bad:
                    sink('ok', f, f.node, 'sample axis never reduced nor indexed at a constant position: each result column depends on its own sample only')
                # per-word results: the value for word w may depend on the state of word w only
                badw = [(fn, node, 'is indexed at a constant position') for fn, node, ax in ty.class_const_index if base(ax) == 'W'] + \
                       [(fn, node, 'is reduced') for fn, node, ax in ty.reduced_axes if base(ax) == 'W']
                for fn, node, what in badw:
                    sink('bad', fn, node, f'the word axis {what} in `{norm(node)[:60]}` while computing per-word results: the result for one data word depends on the state of '
                                          f'another word (e.g. the marginal histogram of word 0 used for every word)')
                if not badw:
                    sink('ok', f, f.node, 'word axis never reduced nor indexed at a constant position: each result row depends on its own data word only')
        else:
            ty.run(f, dict(seeds))
    return counter[0], ty


def check_family(ctx, prog, rule, modules, collect=None):
    """type every concrete mixin whose `_update` or `_compute` is defined in one of `modules` (one class per distinct
    (init, update, compute) implementation triple)."""
    from . import universe, lut
    try:
        lk = lut.Lookup(prog)
        la = set(lk.attrs)
    except AnalysisError:
        la = set()
    allc, concrete = universe.distinguisher_classes(prog)
    seen = set()
    total = 0
    for ci in concrete + universe.mixin_classes(prog):
        fs = [prog.resolve_method(ci, n) for n in ('_initialize', '_update', '_compute', '_compute_metric', '_get_dimension', 'get_template_index')]
        if not any(f is not None and f.mod.name in modules for f in fs[:3]):
            continue
        key = tuple(f.key if f else None for f in fs)
        if key in seen:
            continue
        if fs[2] is not None and any(isinstance(c, ast.Call) and isinstance(c.func, ast.Attribute) and c.func.attr == '_compute_metric'
                                     for c in ast.walk(fs[2].node)) and fs[3] is None:
            continue      # partitioned base without a metric: cannot compute
        seen.add(key)
        n, ty = check_class(ctx, prog, rule, ci, la)
        total += n
        ctx.count('classes_typed', 1)
        if collect is not None:
            collect.append((ci, ty))
    return total
