"""Dimensional (homogeneity) analysis of accumulate-then-compute statistics.

Every value carries exponents over three symbols:  u  (unit of a trace sample),  v  (unit of an intermediate-data word),
n  (number of traces: how the value scales when every trace is processed twice).  A batch array additionally `carries` the trace
axis; reducing that axis (sum, dot/matmul contraction, an accumulation inside `for t in range(traces.shape[0])`) adds 1 to the
n exponent, a mean adds 0.  Products add exponents, quotients subtract, constant powers scale, sqrt halves; sums, differences and
accumulations need equal exponents - a definite mismatch between two *known* dimensions is reported (for instance
`ex2 - ex**2` without the division by n, or a variance divided by the other set's count).  Numeric literals are polymorphic.
What the rules then check is scale behaviour every such statistic must have: a correlation is dimensionless and does not
change when the data set is duplicated (u^0 v^0 n^0); a difference of means is u^1 n^0; Welch's t is u^0 n^(1/2); ...
Anything not understood is TOP and produces no verdict.
"""
import ast
from fractions import Fraction

from .model import norm, const_value, self_attr

TOP = None
CONST = ('const',)


def D(**k):
    return {s: Fraction(e) for s, e in k.items() if e}


def show(d):
    if d is TOP:
        return '?'
    if d == CONST:
        return 'number'
    if not d:
        return 'dimensionless'
    return ' '.join(f'{s}^{e}' if e != 1 else s for s, e in sorted(d.items()))


def mul(a, b, sign=1):
    if a is TOP or b is TOP:
        return TOP
    if a == CONST:
        a = {}
    if b == CONST:
        b = {}
    out = dict(a)
    for s, e in b.items():
        out[s] = out.get(s, 0) + sign * e
        if out[s] == 0:
            del out[s]
    return out


def power(a, k):
    if a is TOP:
        return TOP
    if a == CONST:
        return CONST
    return {s: e * Fraction(k) for s, e in a.items() if e * Fraction(k) != 0}


class Units:
    def __init__(self, func, seeds=None, attrs=None, carries=(), prog=None):
        self.f = func
        self.prog = prog
        self.env = dict(seeds or {})            # local name -> dims
        self.attrs = dict(attrs or {})          # self.attr -> dims
        self.carry = set(carries)               # locals that still have the trace axis
        self.mismatches = []                    # (node, left dims, right dims, what)
        self.contrib = []                       # (attr, dims, node, op)
        self.returns = []                       # (dims, node)
        self.trace_loops = []                   # loop variables iterating over the trace axis
        self.depth = 0

    # ------------------------------------------------------------------ helpers
    def same(self, a, b, node, what):
        if a is TOP or b is TOP:
            return TOP
        if a == CONST:
            return b
        if b == CONST:
            return a
        if a == b:
            return a
        self.mismatches.append((node, a, b, what))
        return TOP

    def carries(self, e):
        return any(isinstance(n, ast.Name) and n.id in self.carry for n in ast.walk(e))

    # ------------------------------------------------------------------ statements
    def run(self):
        self.block(self.f.node.body)
        return self

    def block(self, stmts):
        for st in stmts:
            self.stmt(st)

    def in_trace_loop(self):
        return bool(self.trace_loops)

    def stmt(self, st):
        if isinstance(st, ast.Assign) and len(st.targets) == 1:
            t = st.targets[0]
            if isinstance(t, ast.Tuple) and isinstance(st.value, ast.Tuple) and len(st.value.elts) == len(t.elts) and all(isinstance(x, ast.Name) for x in t.elts):
                vals = [self.ev(y) for y in st.value.elts]      # parallel assignment: element by element
                for x, y, v_ in zip(t.elts, st.value.elts, vals):
                    self.env[x.id] = v_
                    if self.carries(y) and not self.reduces_traces(y):
                        self.carry.add(x.id)
                    else:
                        self.carry.discard(x.id)
                return
            v = self.ev(st.value)
            if isinstance(t, ast.Name):
                self.env[t.id] = v
                if self.carries(st.value) and not self.reduces_traces(st.value):
                    self.carry.add(t.id)
                else:
                    self.carry.discard(t.id)
            elif isinstance(t, ast.Tuple):
                for x in t.elts:
                    if isinstance(x, ast.Name):
                        self.env[x.id] = v if not isinstance(st.value, ast.Tuple) else TOP
                if isinstance(st.value, ast.Tuple) and len(st.value.elts) == len(t.elts):
                    for x, y in zip(t.elts, st.value.elts):
                        if isinstance(x, ast.Name):
                            self.env[x.id] = self.ev(y)
            elif self_attr(t) and isinstance(t, ast.Attribute):
                self.attrs[t.attr] = v
                self.contrib.append((t.attr, v, st, 'assign'))
            elif isinstance(t, ast.Subscript):
                root = t.value
                while isinstance(root, ast.Subscript):
                    root = root.value
                if isinstance(root, ast.Name) and self.carries(st.value):
                    self.carry.add(root.id)
                if isinstance(root, ast.Name) and root.id in self.env:
                    cur = self.env[root.id]
                    if cur is TOP or cur == CONST:
                        self.env[root.id] = v
                    else:
                        self.same(cur, v, st, 'element store')
                elif isinstance(root, ast.Name):
                    self.env[root.id] = v
        elif isinstance(st, ast.AugAssign):
            v = self.ev(st.value)
            t = st.target
            root = t
            while isinstance(root, ast.Subscript):
                root = root.value
            if isinstance(st.op, (ast.Add, ast.Sub)):
                if self.in_trace_loop() and v is not TOP and v != CONST:
                    v = mul(v, D(n=1))          # one term per trace
                elif self.in_trace_loop() and v == CONST:
                    v = D(n=1)                  # counting traces
                if self_attr(root):
                    self.contrib.append((self_attr(root), v, st, 'add'))
                elif isinstance(root, ast.Name):
                    if root.id in self.f.params:
                        self.contrib.append((root.id, v, st, 'add'))
                    cur = self.env.get(root.id, CONST)
                    self.env[root.id] = v if cur in (CONST, TOP) and cur == CONST else self.same(cur, v, st, 'accumulation')
            elif isinstance(st.op, ast.Mult):
                if isinstance(root, ast.Name):
                    self.env[root.id] = mul(self.env.get(root.id, TOP), v)
            elif isinstance(st.op, ast.Div):
                if isinstance(root, ast.Name):
                    self.env[root.id] = mul(self.env.get(root.id, TOP), v, -1)
        elif isinstance(st, ast.For):
            over_traces = self.bind_loop(st)
            if over_traces:
                self.trace_loops.append(st)
            self.block(st.body)
            if over_traces:
                self.trace_loops.pop()
        elif isinstance(st, ast.If):
            self.block(st.body)
            self.block(st.orelse)
        elif isinstance(st, (ast.With, ast.Try)):
            self.block(st.body)
        elif isinstance(st, ast.Return) and st.value is not None:
            self.returns.append((self.ev(st.value), st))
        elif isinstance(st, ast.Expr):
            self.ev(st.value)

    def bind_loop(self, st):
        """bind loop targets; True when the loop runs over the trace axis of a batch array"""
        it = st.iter
        over = False
        if isinstance(it, ast.Call) and norm(it.func).split('.')[-1] in ('range', 'prange') and it.args:
            a = it.args[-1] if len(it.args) == 1 else it.args[1]
            txt = norm(a).replace(' ', '')
            over = any(txt in (f'{c}.shape[0]', f'len({c})') for c in self.carry) or (isinstance(a, ast.Name) and self.env.get(a.id) == D(n=1))    # a local holding the batch length
            for n in ast.walk(st.target):
                if isinstance(n, ast.Name):
                    self.env[n.id] = CONST
            return over
        vals = []
        src = it
        if isinstance(it, ast.Call) and norm(it.func) == 'enumerate' and it.args:
            src = it.args[0]
        if isinstance(src, ast.Call) and norm(src.func) == 'zip':
            vals = [self.ev(a) for a in src.args]
        else:
            vals = [self.ev(src)]
        tg = st.target
        if isinstance(it, ast.Call) and norm(it.func) == 'enumerate' and isinstance(tg, ast.Tuple) and len(tg.elts) == 2:
            if isinstance(tg.elts[0], ast.Name):
                self.env[tg.elts[0].id] = CONST
            tg = tg.elts[1]
        if isinstance(tg, ast.Name):
            self.env[tg.id] = vals[0] if len(vals) == 1 else TOP
        elif isinstance(tg, ast.Tuple):
            for x, v in zip(tg.elts, vals if len(vals) == len(tg.elts) else [TOP] * len(tg.elts)):
                if isinstance(x, ast.Name):
                    self.env[x.id] = v
        return False

    def reduces_traces(self, e):
        """does the outermost operation of e consume the trace axis?"""
        if isinstance(e, ast.Call):
            name = norm(e.func).split('.')[-1]
            if name in ('sum', 'nansum', 'mean', 'nanmean', 'dot', 'matmul', 'count_nonzero', 'var', 'std'):
                return True
        if isinstance(e, ast.BinOp) and isinstance(e.op, ast.MatMult):
            return True
        return False

    # ------------------------------------------------------------------ expressions
    def ev(self, e):
        d = self._ev(e)
        if isinstance(e, (ast.BinOp, ast.Call)) and isinstance(d, dict):
            if not hasattr(self, 'seen'):
                self.seen = []
            self.seen.append((e, d))
        return d

    def _ev(self, e):
        if e is None:
            return TOP
        if isinstance(e, ast.Constant):
            return CONST if isinstance(e.value, (int, float)) and not isinstance(e.value, bool) else TOP
        if isinstance(e, ast.Name):
            if e.id in self.env:
                return self.env[e.id]
            return TOP
        if isinstance(e, ast.Attribute):
            a = self_attr(e)
            if a and isinstance(e.value, ast.Name):
                return self.attrs.get(a, TOP)
            if e.attr == 'T':
                return self.ev(e.value)
            if e.attr in ('shape', 'ndim', 'size', 'dtype', 'nan', 'inf', 'pi', 'newaxis'):
                return CONST
            # attribute of another object (accumulator.mean): looked up by dotted name, then by attribute name
            return self.attrs.get(norm(e), self.attrs.get('*.' + e.attr, TOP))
        if isinstance(e, ast.UnaryOp):
            return self.ev(e.operand)
        if isinstance(e, ast.Compare) or isinstance(e, ast.BoolOp):
            return CONST
        if isinstance(e, (ast.Tuple, ast.List)):
            vs = [self.ev(x) for x in e.elts]
            out = CONST
            if isinstance(e, ast.Tuple) and len({repr(v) for v in vs if v != CONST}) > 1:
                return TOP        # a tuple is a record, not an array: its fields need not be commensurable
            for v in vs:
                out = self.same(out, v, e, 'sequence elements')
                if out is TOP:
                    return TOP
            return out
        if isinstance(e, ast.Subscript):
            if isinstance(e.value, ast.Attribute) and e.value.attr == 'shape':
                if const_value(e.slice) == 0 and self.carries(e.value.value):
                    return D(n=1)              # the batch length
                return CONST
            return self.ev(e.value)
        if isinstance(e, ast.IfExp):
            return self.same(self.ev(e.body), self.ev(e.orelse), e, 'conditional branches')
        if isinstance(e, ast.BinOp):
            if isinstance(e.op, ast.Pow):
                k = const_value(e.right)
                if k is None and isinstance(e.right, ast.BinOp) and isinstance(e.right.op, ast.Div):
                    a_, b_ = const_value(e.right.left), const_value(e.right.right)
                    k = Fraction(a_, b_) if isinstance(a_, int) and isinstance(b_, int) and b_ else None
                base = self.ev(e.left)
                if k is None or isinstance(k, bool):
                    return TOP
                return power(base, Fraction(k).limit_denominator(64) if not isinstance(k, Fraction) else k)
            a, b = self.ev(e.left), self.ev(e.right)
            if isinstance(e.op, (ast.Mult, ast.MatMult)):
                r = mul(a, b)
                if isinstance(e.op, ast.MatMult) and self.carries(e):
                    r = mul(r, D(n=1))
                return r
            if isinstance(e.op, (ast.Div, ast.FloorDiv)):
                return mul(a, b, -1)
            if isinstance(e.op, (ast.Add, ast.Sub)):
                return self.same(a, b, e, 'sum / difference')
            return TOP
        if isinstance(e, ast.Call):
            return self.call(e)
        return TOP

    def call(self, e):
        fn = e.func
        name = norm(fn).split('.')[-1]
        numpy_fn = isinstance(fn, ast.Attribute) and norm(fn.value) in ('_np', 'np', 'numpy')
        if numpy_fn:
            args = [self.ev(a) for a in e.args]
            a0 = args[0] if args else TOP
            a0node = e.args[0] if e.args else None
        elif isinstance(fn, ast.Attribute):
            a0 = self.ev(fn.value)
            a0node = fn.value
            args = [a0] + [self.ev(a) for a in e.args]
        elif isinstance(fn, ast.Name) and fn.id == 'len' and e.args:
            return D(n=1) if self.carries(e.args[0]) else CONST
        elif isinstance(fn, ast.Name) and fn.id in ('int', 'range', 'enumerate'):
            return CONST
        elif isinstance(fn, ast.Name) and fn.id in ('float', 'abs') and e.args:
            return self.ev(e.args[0])
        elif isinstance(fn, ast.Name) and fn.id in ('max', 'min') and fn.id not in self.env and e.args:
            out = CONST if len(e.args) > 1 else self.ev(e.args[0])
            if len(e.args) > 1:
                out = self.ev(e.args[0])
                for a in e.args[1:]:
                    out = self.same(out, self.ev(a), e, f'{fn.id}() operands') if out != CONST or True else out
            return out
        elif isinstance(fn, ast.Name) and fn.id in self.env and e.args:
            return self.ev(e.args[0])            # precision(x): scalar cast by a dtype passed as parameter
        elif isinstance(fn, ast.Name) and self.prog is not None and self.depth < 2:
            r = self.prog.resolve(self.f.mod, fn)
            if r and r[0] == 'func' and r[1].mod is self.f.mod and not e.keywords and len(e.args) == len(r[1].params):
                callee = r[1]
                sub = Units(callee, seeds={p_: self.ev(a) for p_, a in zip(callee.params, e.args)}, attrs=self.attrs, prog=self.prog,
                            carries={p_ for p_, a in zip(callee.params, e.args) if self.carries(a)})
                sub.depth = self.depth + 1
                sub.run()
                self.mismatches.extend(sub.mismatches)
                out = CONST
                for d_, _ in sub.returns:
                    out = self.same(out, d_, e, 'helper results')
                return out if sub.returns else TOP
            return TOP
        else:
            return TOP
        if name in ('sum', 'nansum', 'mean', 'nanmean'):
            ax = next((k.value for k in e.keywords if k.arg == 'axis'), (e.args[1] if numpy_fn and len(e.args) > 1 else (e.args[0] if not numpy_fn and e.args else None)))
            over_n = a0node is not None and self.carries(a0node) and (ax is None or const_value(ax) == 0)
            if over_n and 'sum' in name:
                return mul(a0, D(n=1))
            return a0
        if name in ('dot', 'matmul', 'outer', 'multiply', 'inner') and len(args) >= 2:
            r = mul(args[0], args[1])
            if name in ('dot', 'matmul') and any(self.carries(a) for a in ([fn.value] if not numpy_fn else []) + list(e.args)):
                r = mul(r, D(n=1))
            return r
        if name in ('divide', 'true_divide') and len(args) >= 2:
            return mul(args[0], args[1], -1)
        if name in ('add', 'subtract') and len(args) >= 2:
            return self.same(args[0], args[1], e, 'sum / difference')
        if name == 'sqrt':
            return power(a0, Fraction(1, 2))
        if name == 'square':
            return power(a0, 2)
        if name == 'power' and len(e.args) >= 2 and const_value(e.args[1]) is not None:
            return power(a0, const_value(e.args[1]))
        if name in ('abs', 'absolute', 'copy', 'array', 'asarray', 'astype', 'swapaxes', 'transpose', 'reshape', 'squeeze', 'negative', 'nan_to_num', 'real', 'moveaxis',
                    'max', 'min', 'nanmax', 'nanmin', 'flip', 'roll', 'ascontiguousarray', 'expand_dims', 'diag', 'trace', 'cumsum'):
            return a0
        if name in ('diff', 'spacing', 'ptp', 'sort', 'unique', 'ravel', 'flatten', 'nextafter') :
            return a0
        if name in ('maximum', 'minimum', 'fmax', 'fmin', 'linspace') and len(args) >= 2:
            return self.same(args[0], args[1], e, f'{name} operands')
        if name in ('any', 'all'):
            return CONST
        if name == 'where' and len(args) == 3:
            return self.same(args[1], args[2], e, 'np.where branches')
        if name in ('zeros', 'empty', 'ones', 'zeros_like', 'empty_like', 'arange', 'eye', 'count_nonzero', 'isinf', 'isnan', 'isfinite', 'argmax', 'argmin', 'log', 'log2', 'exp'):
            if name == 'count_nonzero' and a0node is not None and self.carries(a0node):
                return D(n=1)
            return CONST
        if name in ('var', 'nanvar'):
            return power(a0, 2)
        if name in ('std', 'nanstd'):
            return a0
        if name in ('pinv', 'inv'):
            return power(a0, -1)
        return TOP
