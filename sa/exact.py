"""Exact-cancellation analysis for degenerate statistics (constant column => undefined entry must be NaN, i.e. 0/0 or x/0).

Scenario: every trace sample of a column equals the integer c over n traces, and the accumulators hold their exact real values
(n, n c, n c^2 are representable in the working precision - the case the property speaks about: integer-valued inputs).  A value
is abstracted to (monomial coef * n^a * c^b, status):
    E   the floating-point value *is* the real monomial (it lies in the representable set: a in {0,1}, 0 <= b <= 2, coef 1,
        or it is a literal / the count itself);
    R   one correct rounding of the real monomial, computed from exact operands (IEEE: two such roundings of the same real agree);
    X   anything else (rounded operands: the error is not determined by the real value).
A difference of two values with the same monomial is exactly zero when both are E or both are R; with an X operand the
cancellation is not guaranteed, and a variance term that should be 0 comes out as a small positive or negative number: the
entry is then finite (or NaN by accident) instead of NaN.
"""
import ast
from fractions import Fraction

from .model import norm, const_value


class Unknown(Exception):
    pass


E, R, X, ZERO = 'E', 'R', 'X', 'ZERO'


class V:
    def __init__(self, coef, a, b, st):
        self.coef, self.a, self.b, self.st = Fraction(coef), Fraction(a), Fraction(b), st

    def mono(self):
        return (self.coef, self.a, self.b)

    def __repr__(self):
        return f'{self.coef}*n^{self.a}*c^{self.b}[{self.st}]'


def representable(coef, a, b):
    return coef == 1 and a in (0, 1) and b in (0, 1, 2) or (a == 0 and b == 0 and coef.denominator == 1)


def combine(coef, a, b, operands):
    if any(o.st in (X,) for o in operands):
        return V(coef, a, b, X)
    if any(o.st == R for o in operands):
        return V(coef, a, b, X)
    return V(coef, a, b, E if representable(coef, a, b) else R)


def evaluate(e, seeds, defs=None):
    """seeds: {normalised expression text: V}"""
    t = norm(e)
    if t in seeds:
        return seeds[t]
    if isinstance(e, ast.Constant) and isinstance(e.value, (int, float)) and not isinstance(e.value, bool):
        return V(Fraction(e.value).limit_denominator(1 << 20), 0, 0, E)
    if isinstance(e, ast.Name) and defs and e.id in defs:
        return evaluate(defs[e.id], seeds, defs)
    if isinstance(e, ast.UnaryOp) and isinstance(e.op, (ast.USub, ast.UAdd)):
        v = evaluate(e.operand, seeds, defs)
        return V(-v.coef if isinstance(e.op, ast.USub) else v.coef, v.a, v.b, v.st)
    if isinstance(e, ast.BinOp):
        if isinstance(e.op, ast.Pow):
            base = evaluate(e.left, seeds, defs)
            k = const_value(e.right)
            if not isinstance(k, int) or isinstance(k, bool) or not 0 <= k <= 4:
                raise Unknown(f'power `{norm(e.right)}`')
            if base.st == ZERO:
                return base
            return combine(base.coef ** k, base.a * k, base.b * k, [base])
        l, r = evaluate(e.left, seeds, defs), evaluate(e.right, seeds, defs)
        if isinstance(e.op, ast.Mult):
            if ZERO in (l.st, r.st):
                return V(0, 0, 0, ZERO)
            return combine(l.coef * r.coef, l.a + r.a, l.b + r.b, [l, r])
        if isinstance(e.op, ast.Div):
            if l.st == ZERO:
                return l
            if r.st == ZERO or r.coef == 0:
                raise Unknown('division by an exact zero')
            return combine(l.coef / r.coef, l.a - r.a, l.b - r.b, [l, r])
        if isinstance(e.op, (ast.Sub, ast.Add)):
            if l.st == ZERO:
                return r
            if r.st == ZERO:
                return l
            sign = -1 if isinstance(e.op, ast.Sub) else 1
            if (l.a, l.b) != (r.a, r.b):
                raise Unknown(f'sum of different monomials in `{t[:50]}`')
            coef = l.coef + sign * r.coef
            if coef == 0:
                if (l.st, r.st) in ((E, E), (R, R)):
                    return V(0, 0, 0, ZERO)
                return V(0, l.a, l.b, X)
            return combine(coef, l.a, l.b, [l, r])
        raise Unknown(f'operator in `{t[:50]}`')
    if isinstance(e, ast.Call):
        name = norm(e.func).split('.')[-1]
        if name == 'square' and len(e.args) == 1:
            return evaluate(ast.BinOp(left=e.args[0], op=ast.Pow(), right=ast.Constant(2)), seeds, defs)
        if name == 'power' and len(e.args) == 2:
            return evaluate(ast.BinOp(left=e.args[0], op=ast.Pow(), right=e.args[1]), seeds, defs)
        if name in ('multiply', 'divide', 'true_divide', 'subtract', 'add') and len(e.args) == 2:
            op = {'multiply': ast.Mult, 'divide': ast.Div, 'true_divide': ast.Div, 'subtract': ast.Sub, 'add': ast.Add}[name]()
            return evaluate(ast.BinOp(left=e.args[0], op=op, right=e.args[1]), seeds, defs)
        if name in ('astype', 'copy', 'asarray', 'array', 'float', 'abs', 'absolute') and (e.args or isinstance(e.func, ast.Attribute)):
            inner = e.func.value if isinstance(e.func, ast.Attribute) and name in ('astype', 'copy') else (e.args[0] if e.args else None)
            if inner is not None:
                return evaluate(inner, seeds, defs)
        raise Unknown(f'call `{norm(e.func)[:30]}`')
    if isinstance(e, ast.Subscript):
        return evaluate(e.value, seeds, defs)      # a row / element of an accumulator has the accumulator's abstraction
    raise Unknown(f'expression `{t[:50]}`')
