"""Class-lookup (value -> class position, -1 for undeclared) discovery and tag propagation.

builder   a function that allocates a table filled with -1 and stores `table[values[i]] = i`, returning the table
factory   a function that calls a builder and returns a nested numba.vectorize function `lambda x: table[x]`
lut attr  an instance attribute bound to a factory result
tagged    (Func, local/param name) pairs whose values are lookup outputs: elements may be the sentinel -1
"""
import ast

from . import kernels
from .model import norm, root_name, const_value, AnalysisError


def minus_one_fill(v):
    """np.zeros(...) - 1 | np.full(..., -1) | np.ones(...) * -1 | -np.ones(...)"""
    if isinstance(v, ast.BinOp) and isinstance(v.op, ast.Sub) and const_value(v.right) == 1 \
            and isinstance(v.left, ast.Call) and norm(v.left.func).split('.')[-1] == 'zeros':
        return True
    if isinstance(v, ast.Call) and norm(v.func).split('.')[-1] == 'full' and len(v.args) >= 2 and const_value(v.args[1]) == -1:
        return True
    if isinstance(v, ast.BinOp) and isinstance(v.op, ast.Mult) and const_value(v.right) == -1 \
            and isinstance(v.left, ast.Call) and norm(v.left.func).split('.')[-1] == 'ones':
        return True
    if isinstance(v, ast.UnaryOp) and isinstance(v.op, ast.USub) and isinstance(v.operand, ast.Call) \
            and norm(v.operand.func).split('.')[-1] == 'ones':
        return True
    return False


def builders(prog):
    """-> {Func: dict(table=, fill_stmt=, store_stmt=, direction_ok=bool, values_param=)}"""
    out = {}
    for f in prog.funcs:
        table = None
        fill = None
        for n in ast.walk(f.node):
            if isinstance(n, ast.Assign) and len(n.targets) == 1 and isinstance(n.targets[0], ast.Name) and minus_one_fill(n.value):
                table, fill = n.targets[0].id, n
        if table is None:
            continue
        rets = [n for n in ast.walk(f.node) if isinstance(n, ast.Return) and isinstance(n.value, ast.Name) and n.value.id == table]
        if not rets:
            continue
        stores = [(t, st) for t, st, how in kernels.stores(f.node) if isinstance(t, ast.Subscript) and root_name(t) == table]
        out[f] = dict(table=table, fill=fill, stores=stores)
    # wrappers: every value the function returns is the table a builder made for the same argument - directly, through a local,
    # through a module-level table it was kept in (a memo: its soundness is the hidden-state clause's business), or a copy of it
    def is_copier(g):
        rets = [n for n in ast.walk(g.node) if isinstance(n, ast.Return)]
        ps = [p_ for p_ in g.params if p_ != 'self']
        return len(ps) == 1 and len(rets) == 1 and rets[0].value is not None and norm(rets[0].value).replace(' ', '') in (f'{ps[0]}.copy()', f'_np.copy({ps[0]})', f'np.copy({ps[0]})', f'_np.array({ps[0]})')
    for _ in range(2):
        for f in prog.funcs:
            if f in out or f.parent is not None:
                continue
            made, holders = None, set()
            for n in ast.walk(f.node):
                if isinstance(n, ast.Call) and isinstance(n.func, (ast.Name, ast.Attribute)):
                    r = prog.resolve(f.mod, n.func)
                    if r and r[0] == 'func' and r[1] in out and len(n.args) == 1 and isinstance(n.args[0], ast.Name) and n.args[0].id in f.params:
                        made = r[1]
                        holders.add(norm(n))
            if made is None:
                continue
            for _i in range(3):
                for n in ast.walk(f.node):
                    if isinstance(n, ast.Assign):
                        v = n.value
                        vt = norm(v)
                        via_get = isinstance(v, ast.Call) and isinstance(v.func, ast.Attribute) and v.func.attr == 'get' and any(h.startswith(norm(v.func.value) + '[') for h in holders)
                        if vt in holders or via_get:
                            holders |= {norm(t) for t in n.targets}

            def is_table(e):
                if norm(e) in holders:
                    return True
                if isinstance(e, ast.Call) and isinstance(e.func, ast.Attribute) and e.func.attr == 'copy' and not e.args and norm(e.func.value) in holders:
                    return True
                if isinstance(e, ast.Call) and len(e.args) == 1 and norm(e.args[0]) in holders and isinstance(e.func, (ast.Name, ast.Attribute)):
                    if norm(e.func).split('.')[-1] in ('copy', 'array') and norm(e.func).split('.')[0] in ('_np', 'np', 'numpy'):
                        return True
                    r = prog.resolve(f.mod, e.func)
                    return bool(r and r[0] == 'func' and is_copier(r[1]))
                return False
            rets = [n for n in ast.walk(f.node) if isinstance(n, ast.Return)]
            if rets and all(r_.value is not None and is_table(r_.value) for r_ in rets):
                out[f] = dict(out[made])
                out[f]['wrapper_of'] = made
    return out


def check_builder(f, info):
    """value -> position: the only element store is `table[values[i]] = i` with i the loop index over len(values)."""
    res = []
    if len(info['stores']) != 1:
        return [('bad', info['fill'], f'{len(info["stores"])} element stores into the lookup table, expected exactly one')]
    t, st = info['stores'][0]
    idx = t.slice
    rhs = st.value if isinstance(st, ast.Assign) else None
    loop = None
    for n in ast.walk(f.node):
        if isinstance(n, ast.For) and any(s is st for s in ast.walk(n)):
            loop = n
    ok = False
    detail = ''
    if loop is not None and isinstance(loop.target, ast.Name) and isinstance(rhs, ast.Name) and rhs.id == loop.target.id \
            and isinstance(idx, ast.Subscript) and isinstance(idx.value, ast.Name) and idx.value.id in f.params \
            and isinstance(idx.slice, ast.Name) and idx.slice.id == loop.target.id:
        it = loop.iter
        txt = norm(it).replace(' ', '')
        p = idx.value.id
        if txt in (f'range(len({p}))', f'_np.arange(len({p}))', f'np.arange(len({p}))', f'numpy.arange(len({p}))',
                   f'range({p}.shape[0])', f'_np.arange({p}.shape[0])'):
            ok = True
            detail = f'table[{p}[i]] = i for i over all of {p}: declared value -> its position'
        else:
            detail = f'loop `{norm(it)}` does not range over all positions of {p}'
    else:
        detail = f'`{norm(st)}` is not of the form table[values[i]] = i (value -> position)'
    res.append(('ok' if ok else 'bad', st, detail))
    return res


def factories(prog, blds):
    """functions that call a builder, define a nested vectorize function returning table[x], and return it"""
    out = {}
    for f in prog.funcs:
        calls_builder = None
        for n in ast.walk(f.node):
            if isinstance(n, ast.Assign) and isinstance(n.value, ast.Call) and len(n.targets) == 1 and isinstance(n.targets[0], ast.Name):
                r = prog.resolve(f.mod, n.value.func) if isinstance(n.value.func, (ast.Name, ast.Attribute)) else None
                if r and r[0] == 'func' and r[1] in blds:
                    calls_builder = (n.targets[0].id, r[1], n)
        if not calls_builder:
            continue
        tname = calls_builder[0]
        for g in prog.funcs:
            if g.parent is f and prog.numba_kind(g)[0] == 'vectorize':
                rets = [n for n in ast.walk(g.node) if isinstance(n, ast.Return)]
                good = lookup_shape(g, tname)
                returned = any(isinstance(n, ast.Return) and isinstance(n.value, ast.Name) and n.value.id == g.name
                               for n in ast.walk(f.node) if n not in ast.walk(g.node))
                if returned:
                    out[f] = dict(builder=calls_builder[1], nested=g, plain_lookup=good, call=calls_builder[2])
    # wrappers: every value a function returns is a factory result, directly, through a local, or through a module-level table it
    # was stored in under the key it is read back with (whether such a table is a sound memo is the hidden-state clause's business)
    for _ in range(2):
        for f in prog.funcs:
            if f in out or f.parent is not None:
                continue
            made = None          # (factory, texts that hold a factory result)
            holders = set()
            for n in ast.walk(f.node):
                if isinstance(n, ast.Call) and isinstance(n.func, (ast.Name, ast.Attribute)):
                    r = prog.resolve(f.mod, n.func)
                    if r and r[0] == 'func' and r[1] in out:
                        made = r[1]
                        holders.add(norm(n))
            if made is None:
                continue
            for n in ast.walk(f.node):
                if isinstance(n, ast.Assign) and norm(n.value) in holders:
                    holders |= {norm(t) for t in n.targets}
            rets = [n for n in ast.walk(f.node) if isinstance(n, ast.Return)]
            if rets and all(r_.value is not None and norm(r_.value) in holders for r_ in rets):
                out[f] = dict(out[made])
    return out


def lookup_shape(g, tname):
    """shape of the element-wise lookup g: 'plain' (return T[x]), 'guarded2' (T[x] under a two-sided bound on x, else the
    sentinel), 'guarded1' (only one side of x is bounded), or None (something else)."""
    x = g.params[0] if g.params else None
    rets = [n for n in ast.walk(g.node) if isinstance(n, ast.Return)]

    def is_lookup(r):
        return isinstance(r.value, ast.Subscript) and norm(r.value.value) == tname and isinstance(r.value.slice, ast.Name) \
            and r.value.slice.id == x

    def is_sentinel(r):
        return const_value(r.value) == -1
    looks = [r for r in rets if is_lookup(r)]
    if len(rets) == 1 and looks:
        return 'plain'
    if len(looks) == 1 and all(is_lookup(r) or is_sentinel(r) for r in rets):
        from . import astutil
        pm = astutil.parents(g.node)
        lower = upper = False
        for test, pol in astutil.guards(looks[0], pm):
            if not pol:
                continue
            comps = test.values if isinstance(test, ast.BoolOp) and isinstance(test.op, ast.And) else [test]
            for c in comps:
                if not isinstance(c, ast.Compare):
                    continue
                items = [c.left] + list(c.comparators)
                for (a, op, b) in zip(items, c.ops, items[1:]):
                    an, bn = norm(a), norm(b)
                    if an == x and isinstance(op, (ast.Lt, ast.LtE)) or bn == x and isinstance(op, (ast.Gt, ast.GtE)):
                        upper = True
                    if an == x and isinstance(op, (ast.Gt, ast.GtE)) and const_value(b) in (0, -1) or \
                            bn == x and isinstance(op, (ast.Lt, ast.LtE)) and const_value(a) in (0, -1):
                        lower = True
        return 'guarded2' if lower and upper else 'guarded1'
    return None


ORDER_DESTROYING = {'set', 'frozenset', 'sorted', 'unique', 'sort', 'argsort'}


def order_destroyed_uses(prog, funcs):
    """uses, inside the lookup construction functions, of a value derived from a parameter through an order-destroying
    function (set/frozenset/sorted/unique/sort) as a key/subscript, iterable or call argument."""
    out = []
    for f in funcs:
        tainted = {}
        for n in ast.walk(f.node):
            if isinstance(n, ast.Assign) and len(n.targets) == 1 and isinstance(n.targets[0], ast.Name):
                for c in ast.walk(n.value):
                    if isinstance(c, ast.Call) and norm(c.func).split('.')[-1] in ORDER_DESTROYING \
                            and ({x.id for x in ast.walk(c) if isinstance(x, ast.Name)} & set(f.params)):
                        tainted[n.targets[0].id] = (n, norm(c.func).split('.')[-1])
        for n in ast.walk(f.node):
            if isinstance(n, ast.Subscript):
                for x in ast.walk(n.slice):
                    if isinstance(x, ast.Name) and x.id in tainted:
                        out.append((f, n, x.id, tainted[x.id][1], 'key/subscript'))
            elif isinstance(n, ast.For):
                for x in ast.walk(n.iter):
                    if isinstance(x, ast.Name) and x.id in tainted:
                        out.append((f, n.iter, x.id, tainted[x.id][1], 'iteration'))
            elif isinstance(n, ast.Call):
                r = prog.resolve(f.mod, n.func) if isinstance(n.func, (ast.Name, ast.Attribute)) else None
                if r and r[0] == 'func':
                    for a in n.args:
                        if isinstance(a, ast.Name) and a.id in tainted:
                            out.append((f, n, a.id, tainted[a.id][1], 'argument'))
    return out


def lut_attrs(prog, facts):
    """attribute names bound to a factory result: {attr: [(Func, Assign)]}"""
    out = {}
    for f in prog.funcs:
        for t, st, how in kernels.stores(f.node):
            if isinstance(t, ast.Attribute) and how == 'bind' and isinstance(st.value, ast.Call):
                r = prog.resolve(f.mod, st.value.func) if isinstance(st.value.func, (ast.Name, ast.Attribute)) else None
                if r and r[0] == 'func' and r[1] in facts:
                    out.setdefault(t.attr, []).append((f, st))
    return out


def tagged_values(prog, attrs):
    """propagate 'lookup output' through locals, calls (self.m(...), dispatch variables) -> {(Func.key, name)}"""
    tagged = set()
    origin = {}

    def is_lut_call(e):
        return isinstance(e, ast.Call) and isinstance(e.func, ast.Attribute) and e.func.attr in attrs \
            and norm(e.func.value) == 'self'

    work = []
    for f in prog.funcs:
        for n in ast.walk(f.node):
            if isinstance(n, ast.Assign) and is_lut_call(n.value):
                for t in n.targets:
                    if isinstance(t, ast.Name):
                        if (f.key, t.id) not in tagged:
                            tagged.add((f.key, t.id))
                            origin[(f.key, t.id)] = (f, n)
                            work.append((f, t.id))
    def to_callee(f, n, pos, kws):
        disp = {var: names for var, names, node, calls in kernels.dispatch_sites(prog, f)}
        callee_names = []
        if isinstance(n.func, ast.Attribute) and norm(n.func.value) == 'self':
            callee_names = [n.func.attr]
        elif isinstance(n.func, ast.Name) and n.func.id in disp:
            callee_names = disp[n.func.id]
        if not callee_names or f.cls is None:
            return
        for ci in prog.subclasses_of(f.cls):
            for cn in callee_names:
                g = prog.resolve_method(ci, cn)
                if g is None:
                    continue
                params = list(g.params)
                static = any(norm(d) == 'staticmethod' for d in g.node.decorator_list)
                if params and params[0] in ('self', 'cls') and not static:
                    params = params[1:]
                for i in pos:
                    if i < len(params) and (g.key, params[i]) not in tagged:
                        tagged.add((g.key, params[i]))
                        work.append((g, params[i]))
                for k in kws:
                    if k in params and (g.key, k) not in tagged:
                        tagged.add((g.key, k))
                        work.append((g, k))

    # lookup call passed directly as an argument: self.m(a, self.lookup(b))
    for f in prog.funcs:
        for n in ast.walk(f.node):
            if isinstance(n, ast.Call) and not is_lut_call(n):
                pos = [i for i, a in enumerate(n.args) if is_lut_call(a)]
                kws = [k.arg for k in n.keywords if is_lut_call(k.value) and k.arg]
                if pos or kws:
                    to_callee(f, n, pos, kws)
    while work:
        f, name = work.pop()
        # plain copies
        for n in ast.walk(f.node):
            if isinstance(n, ast.Assign) and isinstance(n.value, ast.Name) and n.value.id == name:
                for t in n.targets:
                    if isinstance(t, ast.Name) and (f.key, t.id) not in tagged:
                        tagged.add((f.key, t.id))
                        work.append((f, t.id))
        # calls passing the value
        for n in ast.walk(f.node):
            if not isinstance(n, ast.Call):
                continue
            pos = [i for i, a in enumerate(n.args) if isinstance(a, ast.Name) and a.id == name]
            kws = [k.arg for k in n.keywords if isinstance(k.value, ast.Name) and k.value.id == name and k.arg]
            if pos or kws:
                to_callee(f, n, pos, kws)
    return tagged, origin


class Lookup:
    def __init__(self, prog):
        self.builders = builders(prog)
        self.factories = factories(prog, self.builders)
        self.attrs = lut_attrs(prog, self.factories)
        if not self.builders or not self.factories or not self.attrs:
            raise AnalysisError('class lookup (builder/factory/attribute) not found')
        self.tagged, self.origin = tagged_values(prog, self.attrs)

    def maybe_params(self, f):
        return {n for (k, n) in self.tagged if k == f.key and n in f.params}

    def maybe_locals(self, f):
        return {n for (k, n) in self.tagged if k == f.key}
