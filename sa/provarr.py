"""Provenance arrays: a small dense n-d array of *provenance sets* with the handful of numpy layout operations the cipher
primitives use (reshape, basic indexing, element stores, transpose, roll, stacking, xor).  An element is a frozenset of
(table name, input byte id) edges, combined by symmetric difference under xor (the GF(2) linear structure: an edge that
appears twice cancels).  A dataflow analysis over a fixed small shape: nothing of the repository is executed, the rule that
uses it walks the function's AST (see rules/c05.mix_eval).
"""
import itertools


class Unknown(Exception):
    pass


class PArr:
    def __init__(self, shape, flat):
        self.shape = tuple(shape)
        self.flat = list(flat)
        n = 1
        for d in self.shape:
            n *= d
        if n != len(self.flat):
            raise Unknown(f'shape {self.shape} does not hold {len(self.flat)} elements')

    @staticmethod
    def zeros(shape):
        n = 1
        for d in shape:
            n *= d
        return PArr(shape, [frozenset()] * n)

    @staticmethod
    def inputs(shape, tag='ID'):
        n = 1
        for d in shape:
            n *= d
        return PArr(shape, [frozenset([(tag, i)]) for i in range(n)])

    def copy(self):
        return PArr(self.shape, self.flat)

    def reshape(self, shape):
        shape = list(shape)
        n = len(self.flat)
        if shape.count(-1) > 1:
            raise Unknown('reshape with several -1')
        if -1 in shape:
            k = 1
            for d in shape:
                if d != -1:
                    k *= d
            if k == 0 or n % k:
                raise Unknown(f'reshape {self.shape} -> {tuple(shape)}')
            shape[shape.index(-1)] = n // k
        return PArr(shape, self.flat)

    # ------------------------------------------------------------------ indexing
    def _strides(self):
        st, k = [], 1
        for d in reversed(self.shape):
            st.append(k)
            k *= d
        return list(reversed(st))

    def _select(self, idx):
        """-> (result shape, list of flat offsets) for a basic index (ints, slices, Ellipsis) - or one integer list (gather)"""
        if not isinstance(idx, tuple):
            idx = (idx,)
        if any(i is Ellipsis for i in idx):
            k = idx.index(Ellipsis)
            fill = len(self.shape) - (len(idx) - 1)
            idx = idx[:k] + (slice(None),) * fill + idx[k + 1:]
        idx = idx + (slice(None),) * (len(self.shape) - len(idx))
        if len(idx) != len(self.shape):
            raise Unknown('too many indices')
        axes, rshape = [], []
        for i, d in zip(idx, self.shape):
            if isinstance(i, bool):
                raise Unknown('boolean index')
            if isinstance(i, int):
                if not -d <= i < d:
                    raise Unknown('index out of range')
                axes.append([i % d])
            elif isinstance(i, slice):
                r = list(range(*i.indices(d)))
                axes.append(r)
                rshape.append(len(r))
            elif isinstance(i, (list, tuple)) and all(isinstance(x, int) and not isinstance(x, bool) for x in i):
                if any(not -d <= x < d for x in i):
                    raise Unknown('index out of range')
                axes.append([x % d for x in i])
                rshape.append(len(i))
            else:
                raise Unknown('index kind')
        if sum(1 for i in idx if isinstance(i, (list, tuple))) > 1:
            raise Unknown('several index lists')
        st = self._strides()
        offs = [sum(a * s for a, s in zip(combo, st)) for combo in itertools.product(*axes)]
        return rshape, offs

    def __getitem__(self, idx):
        rshape, offs = self._select(idx)
        return PArr(rshape, [self.flat[o] for o in offs])

    def __setitem__(self, idx, value):
        rshape, offs = self._select(idx)
        if isinstance(value, PArr):
            v = value.broadcast_to(rshape)
            for o, x in zip(offs, v.flat):
                self.flat[o] = x
        else:
            raise Unknown('store of a non array')

    def broadcast_to(self, shape):
        shape = tuple(shape)
        if self.shape == shape:
            return self
        s = (1,) * (len(shape) - len(self.shape)) + self.shape
        if len(s) != len(shape) or any(a != b and a != 1 for a, b in zip(s, shape)):
            raise Unknown(f'broadcast {self.shape} -> {shape}')
        src = PArr(s, self.flat)
        st = src._strides()
        out = []
        for combo in itertools.product(*[range(d) for d in shape]):
            out.append(src.flat[sum((c if d != 1 else 0) * k for c, d, k in zip(combo, s, st))])
        return PArr(shape, out)

    # ------------------------------------------------------------------ layout operations
    def transpose(self, axes=None):
        n = len(self.shape)
        axes = list(reversed(range(n))) if axes is None else [a % n for a in axes]
        if sorted(axes) != list(range(n)):
            raise Unknown('transpose axes')
        st = self._strides()
        shape = [self.shape[a] for a in axes]
        out = []
        for combo in itertools.product(*[range(d) for d in shape]):
            out.append(self.flat[sum(c * st[a] for c, a in zip(combo, axes))])
        return PArr(shape, out)

    def swapaxes(self, a, b):
        n = len(self.shape)
        ax = list(range(n))
        ax[a % n], ax[b % n] = ax[b % n], ax[a % n]
        return self.transpose(ax)

    def roll(self, shift, axis):
        n = len(self.shape)
        if axis is None:
            k = len(self.flat)
            return PArr(self.shape, [self.flat[(i - shift) % k] for i in range(k)])
        axis %= n
        d = self.shape[axis]
        idx = [slice(None)] * n
        idx[axis] = [(i - shift) % d for i in range(d)]
        return self[tuple(idx)]

    @staticmethod
    def stack(items, axis=0):
        items = [i if isinstance(i, PArr) else None for i in items]
        if any(i is None for i in items) or len({i.shape for i in items}) != 1:
            raise Unknown('stack of unlike items')
        r = PArr((len(items),) + items[0].shape, [x for i in items for x in i.flat])
        if axis != 0:
            n = len(r.shape)
            ax = list(range(1, n))
            ax.insert(axis % n, 0)
            r = r.transpose(ax)
        return r

    def xor(self, other):
        if isinstance(other, int) and not isinstance(other, bool):
            if other == 0:
                return self.copy()
            return PArr(self.shape, [x ^ frozenset([('CONST', other)]) for x in self.flat])
        if not isinstance(other, PArr):
            raise Unknown('xor with a non array')
        shape = self.shape if len(self.flat) >= len(other.flat) else other.shape
        a, b = self.broadcast_to(shape), other.broadcast_to(shape)
        return PArr(shape, [x ^ y for x, y in zip(a.flat, b.flat)])

    def table(self, name):
        """elementwise table look-up: defined on single, untabulated provenance only (a look-up of an xor is not linear)"""
        out = []
        for x in self.flat:
            if len(x) != 1 or next(iter(x))[0] != 'ID':
                raise Unknown(f'table {name} applied to a derived value')
            out.append(frozenset([(name, next(iter(x))[1])]))
        return PArr(self.shape, out)
