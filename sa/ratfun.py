"""Rational-function normal form of a statistic computed from accumulators.

A value is  R * prod sqrt(P_i)^(e_i)  with R = N/D (multivariate polynomials with rational coefficients over the accumulator
symbols and the trace count) and P_i polynomials.  Expressions are read from the AST (locals substituted along straight-line
code, element-wise numpy semantics: an element of an accumulator is the accumulator's symbol).  Two statistics are the same
function of the accumulators iff their squares are equal as rational functions (cross-multiplication of normal forms) and
their signs agree (sign of the leading accumulator term under a positive denominator).  No numeric evaluation takes place.
"""
import ast
from fractions import Fraction

from .model import norm, const_value


class Unknown(Exception):
    pass


class Masked(Unknown):
    """a masked ufunc call: decided (the masked entries are not the formula), not merely outside the subset"""


# ------------------------------------------------------------------------------------------------ polynomials
class Poly:
    """dict {monomial: coefficient}; monomial = tuple of (symbol, exponent) sorted by symbol"""

    def __init__(self, terms=None):
        self.t = {m: Fraction(c) for m, c in (terms or {}).items() if c != 0}

    @staticmethod
    def const(c):
        return Poly({(): Fraction(c)})

    @staticmethod
    def sym(name):
        return Poly({((name, 1),): Fraction(1)})

    def __add__(self, o):
        t = dict(self.t)
        for m, c in o.t.items():
            t[m] = t.get(m, 0) + c
        return Poly(t)

    def __neg__(self):
        return Poly({m: -c for m, c in self.t.items()})

    def __sub__(self, o):
        return self + (-o)

    def __mul__(self, o):
        t = {}
        for m1, c1 in self.t.items():
            for m2, c2 in o.t.items():
                d = dict(m1)
                for s, e in m2:
                    d[s] = d.get(s, 0) + e
                m = tuple(sorted((s, e) for s, e in d.items() if e))
                t[m] = t.get(m, 0) + c1 * c2
        return Poly(t)

    def __pow__(self, k):
        r = Poly.const(1)
        for _ in range(k):
            r = r * self
        return r

    def __eq__(self, o):
        return self.t == o.t

    def __hash__(self):
        return hash(frozenset(self.t.items()))

    def is_zero(self):
        return not self.t

    def key(self):
        return tuple(sorted(self.t.items()))

    def symbols(self):
        return {s for m in self.t for s, _ in m}

    def __repr__(self):
        if not self.t:
            return '0'
        parts = []
        for m, c in sorted(self.t.items()):
            mon = '*'.join(f'{s}^{e}' if e != 1 else s for s, e in m)
            parts.append(f'{c}*{mon}' if mon and c != 1 else (mon or str(c)))
        return ' + '.join(parts)


class RF:
    """num/den * prod sqrt(P)^e   (roots: {Poly.key(): (Poly, exponent)})"""

    def __init__(self, num, den=None, roots=None):
        self.num, self.den = num, den if den is not None else Poly.const(1)
        self.roots = {k: v for k, v in (roots or {}).items() if v[1] != 0}

    def mul(self, o, sign=1):
        roots = dict(self.roots)
        for k, (p, e) in o.roots.items():
            cur = roots.get(k, (p, 0))[1]
            roots[k] = (p, cur + sign * e)
        num, den = (self.num * o.num, self.den * o.den) if sign == 1 else (self.num * o.den, self.den * o.num)
        # sqrt(P)^2 = P
        for k, (p, e) in list(roots.items()):
            while e >= 2:
                num = num * p
                e -= 2
            while e <= -2:
                den = den * p
                e += 2
            roots[k] = (p, e)
        return RF(num, den, roots)

    def add(self, o, sign=1):
        if {k: v[1] for k, v in self.roots.items()} != {k: v[1] for k, v in o.roots.items()}:
            raise Unknown('sum of terms with different square-root factors')
        other = o.num if sign == 1 else -o.num
        if self.den == o.den:
            return RF(self.num + other, self.den, self.roots)
        return RF(self.num * o.den + other * self.den, self.den * o.den, self.roots)

    def squared(self):
        """(numerator, denominator) polynomials of the square"""
        num, den = self.num * self.num, self.den * self.den
        for k, (p, e) in self.roots.items():
            if e == 1:
                num = num * p
            elif e == -1:
                den = den * p
            else:
                raise Unknown('root exponent')
        return num, den


def same_square(a, b):
    an, ad = a.squared()
    bn, bd = b.squared()
    return an * bd == bn * ad


def poly_at(p, point):
    tot = Fraction(0)
    for m, c in p.t.items():
        term = Fraction(c)
        for sname, e in m:
            term *= Fraction(point[sname]) ** e
        tot += term
    return tot


def sign_at(v, point):
    """sign (+1 / -1 / 0) of the rational part of v at a rational point where every square-root argument is positive (the roots
    are then positive reals and do not change the sign); None when a root argument is not positive there or the denominator vanishes"""
    for k, (p, e) in v.roots.items():
        if poly_at(p, point) <= 0:
            return None
    d = poly_at(v.den, point)
    if d == 0:
        return None
    x = poly_at(v.num, point) / d
    return (x > 0) - (x < 0)


def same_function(a, b, points):
    """a and b are the same function: equal rational parts when neither has roots, else equal squares and equal sign at generic points"""
    if not a.roots and not b.roots:
        return a.num * b.den == b.num * a.den, 'it is not the same rational function'
    if not same_square(a, b):
        return False, 'its square is not the square of the definition (another function of the inputs)'
    decided = False
    for pt in points:
        sa_, sb_ = sign_at(a, pt), sign_at(b, pt)
        if sa_ is None or sb_ is None or sb_ == 0:
            continue
        decided = True
        if sa_ != sb_:
            return False, 'the sign is reversed'
    if not decided:
        raise Unknown('sign not determined at the sample points')
    return True, ''


def sign_profile(v, lead):
    """sign of the coefficient of the term linear in `lead` in the numerator over a denominator whose coefficients are all positive
    (accumulated second moments, counts): +1 / -1, None when not determined that simply"""
    if any(c < 0 for c in v.den.t.values()):
        return None
    cs = [c for m, c in v.num.t.items() if any(s == lead for s, _ in m)]
    if not cs or any((c > 0) != (cs[0] > 0) for c in cs):
        return None
    s = 1 if cs[0] > 0 else -1
    return s


# ------------------------------------------------------------------------------------------------ evaluation of expressions
class Eval:
    def __init__(self, seeds, env=None):
        self.seeds = seeds            # normalised expression text -> symbol name
        self.env = dict(env or {})    # local name -> RF
        self.alias = {}               # loop variable -> buffer whose rows it walks
        self.attrs = {}               # attribute text -> RF stored by the function

    def ev(self, e):
        t = norm(e)
        if t in self.seeds:
            v = self.seeds[t]
            return v if isinstance(v, RF) else RF(Poly.sym(v))
        if isinstance(e, ast.Attribute) and t in getattr(self, 'attrs', {}):
            return self.attrs[t]
        if isinstance(e, ast.Constant) and isinstance(e.value, (int, float)) and not isinstance(e.value, bool):
            return RF(Poly.const(Fraction(e.value).limit_denominator(1 << 30)))
        if isinstance(e, ast.Name):
            if e.id in self.env:
                return self.env[e.id]
            raise Unknown(f'name {e.id}')
        if isinstance(e, ast.UnaryOp) and isinstance(e.op, ast.USub):
            v = self.ev(e.operand)
            return RF(-v.num, v.den, v.roots)
        if isinstance(e, ast.BinOp):
            if isinstance(e.op, ast.Pow):
                k = const_value(e.right)
                if isinstance(k, float) and k == 0.5:
                    return self.sqrt(self.ev(e.left))
                if not isinstance(k, int) or isinstance(k, bool) or not 0 <= k <= 4:
                    raise Unknown(f'power {norm(e.right)}')
                r = RF(Poly.const(1))
                b = self.ev(e.left)
                for _ in range(k):
                    r = r.mul(b)
                return r
            l, r = self.ev(e.left), self.ev(e.right)
            if isinstance(e.op, ast.Mult) or isinstance(e.op, ast.MatMult):
                return l.mul(r)
            if isinstance(e.op, ast.Div):
                if r.num.is_zero():
                    raise Unknown('division by zero')
                return l.mul(r, -1)
            if isinstance(e.op, ast.Add):
                return l.add(r)
            if isinstance(e.op, ast.Sub):
                return l.add(r, -1)
            raise Unknown(f'operator {type(e.op).__name__}')
        if isinstance(e, ast.Subscript):
            return self.ev(e.value)                # an element / row / broadcast view of a value is that value, element-wise
        if isinstance(e, ast.Attribute) and e.attr == 'T':
            return self.ev(e.value)
        if isinstance(e, ast.Call):
            name = norm(e.func).split('.')[-1]
            if any(k.arg == 'where' for k in e.keywords):
                raise Masked(f'`{norm(e)[:80]}` is a masked ufunc call (where=): the entries the mask excludes keep the content of `out`, they are not the value of the formula')
            if name == 'sqrt' and len(e.args) == 1:
                return self.sqrt(self.ev(e.args[0]))
            if name in ('matmul', 'dot', 'multiply', 'outer') and len(e.args) == 2:
                return self.ev(e.args[0]).mul(self.ev(e.args[1]))
            if name in ('divide', 'true_divide') and len(e.args) == 2:
                return self.ev(e.args[0]).mul(self.ev(e.args[1]), -1)
            if name in ('subtract', 'add') and len(e.args) == 2:
                return self.ev(e.args[0]).add(self.ev(e.args[1]), -1 if name == 'subtract' else 1)
            if name in ('square',) and len(e.args) == 1:
                v = self.ev(e.args[0])
                return v.mul(v)
            if name == 'power' and len(e.args) == 2:
                return self.ev(ast.BinOp(left=e.args[0], op=ast.Pow(), right=e.args[1]))
            if name in ('astype', 'copy', 'swapaxes', 'transpose', 'reshape', 'squeeze') and isinstance(e.func, ast.Attribute):
                return self.ev(e.func.value)
            if name in ('asarray', 'array', 'ascontiguousarray', 'swapaxes', 'transpose', 'float', 'float32', 'float64', 'nan_to_num') and e.args:
                return self.ev(e.args[0])
            if name == 'where' and len(e.args) == 3:
                # where(cond, nan, x) / where(cond, x, nan): x wherever it is not replaced by the NaN marker
                from .infnan import is_nan_expr as is_nan
                if is_nan(e.args[1]):
                    return self.ev(e.args[2])
                if is_nan(e.args[2]):
                    return self.ev(e.args[1])
            h = self.helper(e) if getattr(self, 'helper', None) else None
            if h is not None:
                params, ret = h
                sub = Eval(self.seeds, {})
                sub.helper = self.helper
                for p_, a_ in zip(params, e.args):
                    sub.env[p_] = self.ev(a_)
                for k_ in e.keywords:
                    if k_.arg:
                        sub.env[k_.arg] = self.ev(k_.value)
                return sub.ev(ret)
            raise Unknown(f'call {norm(e.func)[:30]}')
        raise Unknown(f'expression {t[:50]}')

    def sqrt(self, v):
        if v.roots:
            raise Unknown('nested square root')
        # sqrt(N/D) = sqrt(N)/sqrt(D)
        roots = {}
        if v.num != Poly.const(1):
            roots[v.num.key()] = (v.num, 1)
        if v.den != Poly.const(1):
            k = v.den.key()
            roots[k] = (v.den, roots.get(k, (v.den, 0))[1] - 1)
        return RF(Poly.const(1), Poly.const(1), roots)


def run_function(fnode, seeds, loop_bind=None, helper=None):
    """evaluate the straight-line part of a function (loops over the word axis are entered once, their targets bound by
    `loop_bind(For node, evaluator)`); returns the RF of every `return` expression and of every store `result[...] = value`"""
    evl = Eval(seeds)
    evl.helper = helper      # callable(Call node) -> (parameter names, returned expression) of a one-expression repository helper, or None
    outs = []

    def block(stmts):
        for st in stmts:
            if isinstance(st, ast.Expr):
                continue
            if isinstance(st, ast.Assign) and len(st.targets) == 1:
                t = st.targets[0]
                try:
                    v = evl.ev(st.value)
                except Masked:
                    raise
                except Unknown:
                    v = None
                if isinstance(t, ast.Tuple) and isinstance(st.value, ast.Tuple) and len(t.elts) == len(st.value.elts):
                    for t_, v_ in zip(t.elts, st.value.elts):
                        if isinstance(t_, ast.Name):
                            try:
                                evl.env[t_.id] = evl.ev(v_)
                            except Unknown:
                                evl.env.pop(t_.id, None)
                    continue
                if isinstance(t, ast.Name):
                    if v is None:
                        evl.env.pop(t.id, None)
                    else:
                        evl.env[t.id] = v
                elif isinstance(t, ast.Attribute):
                    if v is None:
                        evl.attrs.pop(norm(t), None)
                    else:
                        evl.attrs[norm(t)] = v
                elif isinstance(t, ast.Subscript) and isinstance(t.value, ast.Name):
                    # result[d] = value (value stored element-wise) / result[mask] = nan (a marker, not a value change)
                    if v is not None and isinstance(t.slice, (ast.Name, ast.Constant, ast.Tuple, ast.Slice)):
                        evl.env[t.value.id] = v
                        if t.value.id in evl.alias:
                            evl.env[evl.alias[t.value.id]] = v
                continue
            if isinstance(st, ast.AugAssign) and isinstance(st.target, ast.Name) and st.target.id in evl.env:
                cur = evl.env[st.target.id]
                v = evl.ev(st.value)
                evl.env[st.target.id] = {ast.Mult: lambda: cur.mul(v), ast.Div: lambda: cur.mul(v, -1), ast.Add: lambda: cur.add(v), ast.Sub: lambda: cur.add(v, -1)}.get(type(st.op), lambda: (_ for _ in ()).throw(Unknown('augmented operator')))()
                continue
            if isinstance(st, ast.For):
                if loop_bind is not None:
                    loop_bind(st, evl)
                block(st.body)
                continue
            if isinstance(st, ast.Return) and st.value is not None:
                outs.append((evl.ev(st.value), st))
                continue
            if isinstance(st, (ast.If, ast.Try, ast.With)):
                block(st.body)
                continue
    block(fnode.body)
    run_function.last_attrs = dict(evl.attrs)
    return outs


# ------------------------------------------------------------------------------------------------ class-axis vectors
class VecEval(Eval):
    """values are an RF (scalar over the class axis) or a list of K RFs (one per class); arithmetic broadcasts, `sum` / `mean` over
    the class axis reduce a vector to a scalar, layout operations are identities (the axis typing rule owns the layout)"""

    def __init__(self, seeds, vectors, K):
        super().__init__(seeds)
        self.vectors = vectors        # normalised text -> list of K symbol names
        self.K = K

    def lift(self, op, a, b):
        if isinstance(a, list) or isinstance(b, list):
            A = a if isinstance(a, list) else [a] * self.K
            B = b if isinstance(b, list) else [b] * self.K
            return [op(x, y) for x, y in zip(A, B)]
        return op(a, b)

    def ev(self, e):
        t = norm(e)
        if isinstance(e, ast.Name) and e.id in self.env:
            return self.env[e.id]
        if t in self.vectors:
            return [RF(Poly.sym(s)) for s in self.vectors[t]]
        if t in self.seeds:
            v = self.seeds[t]
            return v if isinstance(v, (RF, list)) else RF(Poly.sym(v))
        if isinstance(e, ast.Name) and e.id in self.env:
            return self.env[e.id]
        if isinstance(e, ast.UnaryOp) and isinstance(e.op, ast.USub):
            v = self.ev(e.operand)
            neg = lambda x: RF(-x.num, x.den, x.roots)     # noqa: E731
            return [neg(x) for x in v] if isinstance(v, list) else neg(v)
        if isinstance(e, ast.BinOp):
            if isinstance(e.op, ast.Pow):
                k = const_value(e.right)
                b = self.ev(e.left)
                if isinstance(k, float) and k == 0.5:
                    return [self.sqrt(x) for x in b] if isinstance(b, list) else self.sqrt(b)
                if not isinstance(k, int) or isinstance(k, bool) or not 0 <= k <= 4:
                    raise Unknown(f'power {norm(e.right)}')

                def pw(x):
                    r = RF(Poly.const(1))
                    for _ in range(k):
                        r = r.mul(x)
                    return r
                return [pw(x) for x in b] if isinstance(b, list) else pw(b)
            l, r = self.ev(e.left), self.ev(e.right)
            ops = {ast.Mult: lambda x, y: x.mul(y), ast.MatMult: None, ast.Div: lambda x, y: x.mul(y, -1), ast.Add: lambda x, y: x.add(y), ast.Sub: lambda x, y: x.add(y, -1)}
            op = ops.get(type(e.op))
            if op is None:
                raise Unknown(f'operator {type(e.op).__name__}')
            return self.lift(op, l, r)
        if isinstance(e, ast.Subscript):
            return self.ev(e.value)
        if isinstance(e, ast.Attribute) and e.attr == 'T':
            return self.ev(e.value)
        if isinstance(e, ast.Call):
            name = norm(e.func).split('.')[-1]
            recv = e.func.value if isinstance(e.func, ast.Attribute) and norm(e.func.value) not in ('_np', 'np', 'numpy') else None
            arg0 = recv if recv is not None else (e.args[0] if e.args else None)
            if name in ('sum', 'nansum') and arg0 is not None:
                v = self.ev(arg0)
                if isinstance(v, list):
                    out = v[0]
                    for x in v[1:]:
                        out = out.add(x)
                    return out
                return v                       # a sum over another axis of a class-scalar: not a class reduction
            if name in ('mean', 'nanmean', 'average') and arg0 is not None:
                v = self.ev(arg0)
                if isinstance(v, list):
                    out = v[0]
                    for x in v[1:]:
                        out = out.add(x)
                    return out.mul(RF(Poly.const(self.K)), -1)
                return v
            if name == 'sqrt' and arg0 is not None:
                v = self.ev(arg0)
                return [self.sqrt(x) for x in v] if isinstance(v, list) else self.sqrt(v)
            if name in ('square',) and arg0 is not None:
                v = self.ev(arg0)
                return self.lift(lambda x, y: x.mul(y), v, v)
            if name in ('multiply', 'divide', 'true_divide', 'subtract', 'add') and len(e.args) == 2:
                op = {'multiply': lambda x, y: x.mul(y), 'divide': lambda x, y: x.mul(y, -1), 'true_divide': lambda x, y: x.mul(y, -1), 'subtract': lambda x, y: x.add(y, -1), 'add': lambda x, y: x.add(y)}[name]
                return self.lift(op, self.ev(e.args[0]), self.ev(e.args[1]))
            if name in ('astype', 'copy', 'swapaxes', 'transpose', 'reshape', 'squeeze', 'asarray', 'array', 'ascontiguousarray', 'expand_dims', 'moveaxis', 'atleast_2d') and arg0 is not None:
                return self.ev(arg0)
            if name in ('count_nonzero',) and e.args and norm(e.args[0]) in self.seeds.get('$masks', ()):
                return RF(Poly.const(self.K))
            if name == 'len' and e.args and norm(e.args[0]) in self.seeds.get('$masks', ()):
                return RF(Poly.sym('P'))
            raise Unknown(f'call {norm(e.func)[:30]}')
        return super().ev(e)


def run_vector_function(fnode, ev):
    outs = []

    def block(stmts):
        for st in stmts:
            if isinstance(st, ast.Expr):
                continue
            if isinstance(st, ast.Assign) and len(st.targets) == 1 and isinstance(st.targets[0], ast.Name):
                ev.env[st.targets[0].id] = ev.ev(st.value)
                continue
            if isinstance(st, ast.AugAssign) and isinstance(st.target, ast.Name):
                cur, v = ev.ev(ast.Name(id=st.target.id, ctx=ast.Load())), ev.ev(st.value)
                ops = {ast.Mult: lambda x, y: x.mul(y), ast.Div: lambda x, y: x.mul(y, -1), ast.Add: lambda x, y: x.add(y), ast.Sub: lambda x, y: x.add(y, -1)}
                if type(st.op) not in ops:
                    raise Unknown('augmented operator')
                ev.env[st.target.id] = ev.lift(ops[type(st.op)], cur, v)
                continue
            if isinstance(st, ast.Return) and st.value is not None:
                outs.append((ev.ev(st.value), st))
                continue
            if isinstance(st, (ast.If, ast.With, ast.Try)):
                block(st.body)
                continue
            raise Unknown(f'statement `{norm(st)[:40]}`')
    block(fnode.body)
    return outs


# ------------------------------------------------------------------------------------------------ tensors of rational functions
class Q:
    """a rational function with Python operators, so that numpy object arrays of Q give broadcasting, axis reductions and layout
    operations; `log` produces an uninterpreted atom, two atoms being the same symbol when their arguments are equal rational
    functions (cross-multiplication)"""
    atoms = []          # [(RF argument, symbol name)] - reset per analysis

    def __init__(self, rf):
        self.rf = rf

    @staticmethod
    def sym(name):
        return Q(RF(Poly.sym(name)))

    @staticmethod
    def const(c):
        return Q(RF(Poly.const(c)))

    @staticmethod
    def lift(o):
        if isinstance(o, Q):
            return o
        if isinstance(o, (int, float)) and not isinstance(o, bool):
            return Q.const(Fraction(o).limit_denominator(1 << 30))
        if isinstance(o, bool) or type(o).__name__ in ('bool_', 'bool'):
            return Q.const(1 if o else 0)               # a mask cell: 0 / 1
        if type(o).__module__ == 'numpy' and type(o).__name__.startswith(('int', 'uint')):
            return Q.const(int(o))
        if type(o).__module__ == 'numpy' and type(o).__name__.startswith('float'):
            return Q.const(Fraction(float(o)).limit_denominator(1 << 30))
        raise Unknown(f'operand {type(o).__name__}')


    @staticmethod
    def _arr(o):
        return type(o).__name__ == 'ndarray'

    def __add__(self, o):
        if Q._arr(o):
            return NotImplemented
        return Q(self.rf.add(Q.lift(o).rf))
    __radd__ = __add__

    def __sub__(self, o):
        if Q._arr(o):
            return NotImplemented
        return Q(self.rf.add(Q.lift(o).rf, -1))

    def __rsub__(self, o):
        if Q._arr(o):
            return NotImplemented
        return Q(Q.lift(o).rf.add(self.rf, -1))

    def __mul__(self, o):
        if Q._arr(o):
            return NotImplemented
        return Q(self.rf.mul(Q.lift(o).rf))
    __rmul__ = __mul__

    def __truediv__(self, o):
        if Q._arr(o):
            return NotImplemented
        return Q(self.rf.mul(Q.lift(o).rf, -1))

    def __rtruediv__(self, o):
        if Q._arr(o):
            return NotImplemented
        return Q(Q.lift(o).rf.mul(self.rf, -1))

    def __neg__(self):
        return Q(RF(-self.rf.num, self.rf.den, self.rf.roots))

    def __pow__(self, k):
        if isinstance(k, float) and (2 * k) == int(2 * k):
            k = Fraction(int(2 * k), 2)
        if isinstance(k, Fraction) and k.denominator == 2 and 0 < k <= 4:
            out = self.sqrt()
            for _ in range((k.numerator - 1) // 2):
                out = out * self
            return out
        if isinstance(k, Fraction) and k.denominator == 1:
            k = int(k)
        if not isinstance(k, int) or isinstance(k, bool) or not 0 <= k <= 6:
            raise Unknown('power')
        out = Q.const(1)
        for _ in range(k):
            out = out * self
        return out

    def sqrt(self):
        return Q(Eval({}).sqrt(self.rf))

    def log(self):
        for arg, name in Q.atoms:
            if arg.num * self.rf.den == self.rf.num * arg.den:
                return Q.sym(name)
        name = f'LOG{len(Q.atoms)}'
        Q.atoms.append((self.rf, name))
        return Q.sym(name)

    def same(self, o):
        return self.rf.num * o.rf.den == o.rf.num * self.rf.den

    def __eq__(self, o):          # element-wise comparisons in masks: never true for symbolic cells
        return False

    def __hash__(self):
        return id(self)
