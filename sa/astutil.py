"""Small syntax helpers shared by the rules."""
import ast

from .model import norm


def parents(root):
    pm = {}
    for n in ast.walk(root):
        for c in ast.iter_child_nodes(n):
            pm[c] = n
    return pm


def enclosing(node, pm, stop=None):
    """[(ancestor, field)] from the innermost outwards; field tells in which block of the ancestor the node sits."""
    out = []
    cur = node
    while cur in pm and pm[cur] is not stop:
        par = pm[cur]
        field = None
        for name, val in ast.iter_fields(par):
            if val is cur or (isinstance(val, list) and any(v is cur for v in val)):
                field = name
                break
        out.append((par, field))
        cur = par
    return out


def guards(node, pm, stop=None):
    """[(test expr, polarity)] of the If/While/IfExp conditions the node is control-dependent on (structured code)."""
    out = []
    for par, field in enclosing(node, pm, stop):
        if isinstance(par, ast.If) and field in ('body', 'orelse'):
            out.append((par.test, field == 'body'))
        elif isinstance(par, ast.While) and field == 'body':
            out.append((par.test, True))
        elif isinstance(par, ast.IfExp) and field in ('body', 'orelse'):
            out.append((par.test, field == 'body'))
    return [(_flag_test(t, node, pm), pol) for t, pol in out]


def _flag_test(test, node, pm):
    """a guard that is a bare local flag (`first = i == 0` ... `if first:`) reads as the comparison that defines the flag, when the
    flag is assigned once in the function, in a block that encloses the guarded node, and what the comparison reads is not
    assigned between the two (loop variables of loops enclosing both, parameters, once-assigned locals)."""
    if not isinstance(test, ast.Name):
        return test
    root = node
    chain = [node]
    while root in pm:
        root = pm[root]
        chain.append(root)
        if isinstance(root, (ast.FunctionDef, ast.AsyncFunctionDef)):
            break
    assigns = {}
    for n in ast.walk(root):
        if isinstance(n, (ast.Assign, ast.AugAssign, ast.AnnAssign)):
            for t in (n.targets if isinstance(n, ast.Assign) else [n.target]):
                for m in (t.elts if isinstance(t, (ast.Tuple, ast.List)) else [t]):
                    while isinstance(m, (ast.Subscript, ast.Attribute, ast.Starred)):      # a store into x[i] changes x, not i
                        m = m.value
                    if isinstance(m, ast.Name):
                        assigns.setdefault(m.id, []).append(n)
        elif isinstance(n, (ast.For, ast.comprehension)):
            for m in ast.walk(n.target):
                if isinstance(m, ast.Name):
                    assigns.setdefault(m.id, []).append(n)
    ds = assigns.get(test.id, [])
    if len(ds) != 1 or not isinstance(ds[0], ast.Assign) or len(ds[0].targets) != 1 or not isinstance(ds[0].targets[0], ast.Name):
        return test
    d = ds[0]
    if not isinstance(d.value, (ast.Compare, ast.BoolOp, ast.UnaryOp)) or any(isinstance(m, ast.Call) for m in ast.walk(d.value)):
        return test
    # the definition sits directly in a block of a construct enclosing the node
    if pm.get(d) not in chain:
        return test
    for nm in names_read(d.value):
        for a in assigns.get(nm, []):
            if isinstance(a, ast.For):
                if a not in chain or pm.get(d) is not a and a not in _chain_of(d, pm):
                    return test
            elif len(assigns[nm]) != 1:
                return test
    return d.value


def _chain_of(n, pm):
    out = []
    while n in pm:
        n = pm[n]
        out.append(n)
    return out


def loops(node, pm, stop=None):
    return [par for par, field in enclosing(node, pm, stop) if isinstance(par, (ast.For, ast.While)) and field == 'body']


def names_read(e):
    return {n.id for n in ast.walk(e) if isinstance(n, ast.Name) and isinstance(n.ctx, ast.Load)}


def self_attrs_read(e, selfname='self'):
    out = set()
    for n in ast.walk(e):
        if isinstance(n, ast.Attribute) and isinstance(n.value, ast.Name) and n.value.id == selfname \
                and isinstance(n.ctx, ast.Load):
            out.add(n.attr)
    return out


def stmts_of(fnode):
    """all statements of a function body in source order, nested defs excluded."""
    out = []

    def visit(body):
        for st in body:
            if isinstance(st, (ast.FunctionDef, ast.AsyncFunctionDef, ast.ClassDef)):
                continue
            out.append(st)
            for name in ('body', 'orelse', 'finalbody'):
                sub = getattr(st, name, None)
                if isinstance(sub, list) and sub and isinstance(sub[0], ast.stmt):
                    visit(sub)
            if isinstance(st, ast.Try):
                for h in st.handlers:
                    visit(h.body)
    visit(fnode.body)
    return out


def is_shape0(e, names):
    """`X.shape[0]` or `len(X)` for X in names"""
    if isinstance(e, ast.Subscript) and isinstance(e.value, ast.Attribute) and e.value.attr == 'shape' \
            and isinstance(e.value.value, ast.Name) and e.value.value.id in names:
        s = e.slice
        return isinstance(s, ast.Constant) and s.value == 0
    if isinstance(e, ast.Call) and norm(e.func) == 'len' and len(e.args) == 1 and isinstance(e.args[0], ast.Name) \
            and e.args[0].id in names:
        return True
    return False


def contains(e, pred):
    return any(pred(n) for n in ast.walk(e))


def affine(e, var=None):
    """normalise a small integer expression to {term: coeff} with '' the constant term; None if not affine.
    Terms are normalised source texts of non-affine leaves (names, attribute chains, calls)."""
    if isinstance(e, ast.Constant) and isinstance(e.value, int) and not isinstance(e.value, bool):
        return {'': e.value}
    if isinstance(e, ast.UnaryOp) and isinstance(e.op, ast.USub):
        a = affine(e.operand)
        return None if a is None else {k: -v for k, v in a.items()}
    if isinstance(e, ast.BinOp) and isinstance(e.op, (ast.Add, ast.Sub)):
        a, b = affine(e.left), affine(e.right)
        if a is None or b is None:
            return None
        out = dict(a)
        for k, v in b.items():
            out[k] = out.get(k, 0) + (v if isinstance(e.op, ast.Add) else -v)
        return {k: v for k, v in out.items() if v != 0 or k == ''}
    if isinstance(e, ast.BinOp) and isinstance(e.op, ast.Mult):
        a, b = affine(e.left), affine(e.right)
        if a is None or b is None:
            return None
        # polynomial product: monomials are '*'-joined sorted factor texts ('' is the unit)
        out = {}
        for ka, va in a.items():
            for kb, vb in b.items():
                fs = sorted([x for x in ka.split('*') if x] + [x for x in kb.split('*') if x])
                k = '*'.join(fs)
                out[k] = out.get(k, 0) + va * vb
        return {k: v for k, v in out.items() if v != 0 or k == ''}
    if isinstance(e, (ast.Name, ast.Attribute, ast.Subscript, ast.Call)):
        return {norm(e): 1}
    return None


def affine_eq(a, b):
    if a is None or b is None:
        return None
    ka = {k: v for k, v in a.items() if v != 0}
    kb = {k: v for k, v in b.items() if v != 0}
    return ka == kb


META_ATTRS = {'shape', 'dtype', 'ndim', 'size', 'itemsize', 'nbytes'}


def value_names_read(e):
    """names whose *values* are read in e: occurrences only used for .shape/.dtype/len() are excluded."""
    pm = parents(e)
    out = set()
    for n in ast.walk(e):
        if isinstance(n, ast.Name) and isinstance(n.ctx, ast.Load):
            par = pm.get(n)
            if isinstance(par, ast.Attribute) and par.attr in META_ATTRS:
                continue
            if isinstance(par, ast.Call) and norm(par.func) == 'len' and par.args and par.args[0] is n:
                continue
            out.add(n.id)
    return out


def value_self_attrs_read(e, selfname='self'):
    pm = parents(e)
    out = set()
    for n in ast.walk(e):
        if isinstance(n, ast.Attribute) and isinstance(n.value, ast.Name) and n.value.id == selfname \
                and isinstance(n.ctx, ast.Load):
            par = pm.get(n)
            if isinstance(par, ast.Attribute) and par.attr in META_ATTRS:
                continue
            if isinstance(par, ast.Call) and norm(par.func) == 'len' and par.args and par.args[0] is n:
                continue
            out.add(n.attr)
    return out


def guards_ext(node, pm, stop=None):
    """guards() plus early-exit guards: a preceding sibling `if C: continue/break/return/raise` (in the same block or in an
    enclosing block up to the function) makes the statement conditional on `not C`."""
    out = list(guards(node, pm, stop))
    cur = node
    while cur in pm and pm[cur] is not stop:
        par = pm[cur]
        for field in ('body', 'orelse', 'finalbody'):
            blk = getattr(par, field, None)
            if isinstance(blk, list) and any(x is cur for x in blk):
                for st in blk:
                    if st is cur:
                        break
                    if isinstance(st, ast.If) and st.body and isinstance(st.body[-1], (ast.Continue, ast.Break, ast.Return, ast.Raise)) and not st.orelse:
                        out.append((st.test, False))
        if isinstance(par, (ast.FunctionDef, ast.AsyncFunctionDef)):
            break
        cur = par
    return out


def return_paths(fnode, skip_raising=True, max_paths=64):
    """[(guards, expr)] for every path of a loop-free function body to a `return <expr>`: locals are expanded into the expressions
    that define them along the path (single static assignment by substitution), `guards` is the list of (expanded test, polarity)
    of the If statements taken.  Branches that end in `raise` are dropped when skip_raising.  Try: the body is followed (handlers
    that only raise are ignored).  Returns None when the body contains a loop on the way or too many paths."""
    import copy

    class Exp(ast.NodeTransformer):
        def __init__(self, env):
            self.env = env

        def visit_Name(self, n):
            if isinstance(n.ctx, ast.Load) and n.id in self.env:
                return copy.deepcopy(self.env[n.id])
            return n

    def expand(e, env):
        return Exp(env).visit(copy.deepcopy(e))
    out = []

    class TooMany(Exception):
        pass

    def walk(stmts, env, guards):
        """returns True if every path through stmts ended (return / raise)"""
        for i, st in enumerate(stmts):
            if isinstance(st, ast.Return):
                out.append((list(guards), expand(st.value, env) if st.value is not None else None))
                if len(out) > max_paths:
                    raise TooMany()
                return True
            if isinstance(st, ast.Raise):
                return True
            if isinstance(st, ast.Assign) and len(st.targets) == 1 and isinstance(st.targets[0], ast.Name):
                env = dict(env)
                env[st.targets[0].id] = expand(st.value, env)
                continue
            if isinstance(st, ast.If):
                t = expand(st.test, env)
                rest = stmts[i + 1:]
                e1 = walk(list(st.body) + rest, dict(env), guards + [(t, True)])
                e2 = walk(list(st.orelse) + rest, dict(env), guards + [(t, False)])
                return e1 and e2
            if isinstance(st, ast.Try):
                return walk(list(st.body) + list(st.orelse) + list(st.finalbody) + stmts[i + 1:], env, guards)
            if isinstance(st, ast.With):
                return walk(list(st.body) + stmts[i + 1:], env, guards)
            if isinstance(st, (ast.For, ast.While)):
                raise TooMany()
            # other statements (Expr, AugAssign, attribute stores, assert): no effect on the returned expression's locals,
            # except an augmented assignment of a local
            if isinstance(st, ast.AugAssign) and isinstance(st.target, ast.Name):
                env = dict(env)
                cur = env.get(st.target.id, ast.Name(id=st.target.id, ctx=ast.Load()))
                env[st.target.id] = ast.BinOp(left=copy.deepcopy(cur), op=st.op, right=expand(st.value, env))
        return False
    try:
        walk(list(fnode.body), {}, [])
    except TooMany:
        return None
    return out


ORDER_CHANGING = {'sorted', 'sort', 'unique', 'set', 'frozenset', 'reversed', 'flip', 'flipud', 'roll', 'argsort', 'fromkeys', 'shuffle', 'permutation'}
ORDER_KEEPING = {'list', 'tuple', 'asarray', 'array', 'copy', 'ascontiguousarray'}


def passthrough_kind(value, param):
    """how a stored configuration value relates to the caller's argument `param`:
    'same'     the argument itself, `param if param is not None else <default>` (either orientation), a one-element wrap
               `[param]` on the branch where it is not a list, or an order-preserving copy;
    'derived'  a value computed from it that can reorder / drop / repeat / transform elements (sorted, unique, set, reversed,
               arithmetic, slicing with a step, ...);
    'unknown'  anything else."""
    if isinstance(value, ast.Name):
        return 'same' if value.id == param else 'unknown'
    if isinstance(value, ast.IfExp):
        kinds = {passthrough_kind(value.body, param), passthrough_kind(value.orelse, param)}
        consts = [b for b in (value.body, value.orelse) if isinstance(b, ast.Constant)]
        wraps = [b for b in (value.body, value.orelse) if isinstance(b, (ast.List, ast.Tuple)) and len(b.elts) == 1 and norm(b.elts[0]) == param]
        if consts or wraps:
            other = [b for b in (value.body, value.orelse) if b not in consts and b not in wraps]
            if not other:
                return 'unknown'
            return passthrough_kind(other[0], param)
        if kinds == {'same'}:
            return 'same'
        return 'derived' if 'derived' in kinds else 'unknown'
    if isinstance(value, ast.Call):
        name = norm(value.func).split('.')[-1]
        args = list(value.args)
        recv = value.func.value if isinstance(value.func, ast.Attribute) else None
        inner = None
        if args and norm(args[0]) == param:
            inner = args[0]
        elif recv is not None and norm(recv) == param:
            inner = recv
        elif args and isinstance(args[0], (ast.Call, ast.IfExp)):
            k = passthrough_kind(args[0], param)
            if k != 'unknown':
                return 'derived' if (k == 'derived' or name in ORDER_CHANGING) else ('same' if name in ORDER_KEEPING else 'unknown')
        if inner is not None:
            if name in ORDER_CHANGING:
                return 'derived'
            if name in ORDER_KEEPING and len(args) <= 1:
                return 'same'
            if name == 'astype':
                return 'derived'
        return 'unknown'
    if isinstance(value, (ast.BinOp, ast.UnaryOp)) and any(isinstance(n, ast.Name) and n.id == param for n in ast.walk(value)):
        return 'derived'
    if isinstance(value, ast.Subscript) and norm(value.value) == param:
        sl = value.slice
        if isinstance(sl, ast.Slice) and sl.lower is None and sl.upper is None and (sl.step is None or const_value_(sl.step) == 1):
            return 'same'
        return 'derived'
    return 'unknown'


def const_value_(node):
    if isinstance(node, ast.Constant):
        return node.value
    if isinstance(node, ast.UnaryOp) and isinstance(node.op, ast.USub) and isinstance(node.operand, ast.Constant):
        return -node.operand.value
    return None


def local_defs(fnode):
    """{name: value expr} for locals stored exactly once in the function by a plain or parallel assignment whose value reads only
    names that are never re-stored in the function (so the value can stand for the name anywhere after the definition)"""
    stores = {}
    for n in ast.walk(fnode):
        if isinstance(n, ast.Name) and isinstance(n.ctx, (ast.Store, ast.Del)):
            stores[n.id] = stores.get(n.id, 0) + 1
    params = {a.arg for a in fnode.args.posonlyargs + fnode.args.args + fnode.args.kwonlyargs}
    out = {}
    last_store = {}
    in_loop = set()
    for n in ast.walk(fnode):
        if isinstance(n, ast.Name) and isinstance(n.ctx, (ast.Store, ast.Del)):
            last_store[n.id] = max(last_store.get(n.id, 0), getattr(n, 'lineno', 0))
    for lp in ast.walk(fnode):
        if isinstance(lp, (ast.For, ast.While)):
            for n in ast.walk(lp):
                if isinstance(n, ast.Name) and isinstance(n.ctx, (ast.Store, ast.Del)):
                    in_loop.add(n.id)

    loop_targets_at = {}
    for lp in ast.walk(fnode):
        if isinstance(lp, ast.For):
            tn = {t.id for t in ast.walk(lp.target) if isinstance(t, ast.Name)}
            for n in ast.walk(lp):
                if isinstance(n, ast.Assign):
                    loop_targets_at.setdefault(id(n), set()).update(tn)

    attr_store_last = {}
    for n in ast.walk(fnode):
        if isinstance(n, ast.Attribute) and isinstance(n.ctx, (ast.Store, ast.Del)):
            attr_store_last[norm(n)] = max(attr_store_last.get(norm(n), 0), getattr(n, 'lineno', 0))

    def ok_value(v, at=0, node=None):
        # loop variables of a loop that encloses the definition are stable for the rest of that iteration
        lt = loop_targets_at.get(id(node), set()) if node is not None else set()
        # an attribute read by the definition must not be rebound later in the function
        if any(isinstance(x, ast.Attribute) and attr_store_last.get(norm(x), 0) >= at for x in ast.walk(v)):
            return False
        return all(x.id in lt or _ok_name(x, at) for x in ast.walk(v) if isinstance(x, ast.Name) and isinstance(x.ctx, ast.Load))

    def _ok_name(x, at):
        return stores.get(x.id, 0) == 0 or (stores.get(x.id, 0) == 1 and x.id in out) or (x.id not in in_loop and last_store.get(x.id, 0) < at)

    def _unused_ok_value(v, at=0):
        # a name read by the definition is stable afterwards: never stored, a single-store local already accepted, or every
        # store of it lies before the definition (and outside loops)
        return all(stores.get(x.id, 0) == 0 or (stores.get(x.id, 0) == 1 and x.id in out) or (x.id not in in_loop and last_store.get(x.id, 0) < at)
                   for x in ast.walk(v) if isinstance(x, ast.Name) and isinstance(x.ctx, ast.Load))
    for n in ast.walk(fnode):
        if not (isinstance(n, ast.Assign) and len(n.targets) == 1):
            continue
        t, v = n.targets[0], n.value
        pairs = []
        if isinstance(t, ast.Name):
            pairs = [(t, v)]
        elif isinstance(t, ast.Tuple) and isinstance(v, ast.Tuple) and len(t.elts) == len(v.elts) and all(isinstance(x, ast.Name) for x in t.elts):
            pairs = list(zip(t.elts, v.elts))
        for x, y in pairs:
            if stores.get(x.id) == 1 and x.id not in params and ok_value(y, getattr(n, 'lineno', 0), n):
                out[x.id] = y
    return out


def expand_locals(e, defs, depth=4):
    import copy

    class Exp(ast.NodeTransformer):
        def __init__(self, d):
            self.d = d

        def visit_Name(self, n):
            if isinstance(n.ctx, ast.Load) and n.id in defs and self.d > 0:
                return Exp(self.d - 1).visit(copy.deepcopy(defs[n.id]))
            return n
    return Exp(depth).visit(copy.deepcopy(e))
