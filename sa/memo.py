"""E16 - hidden process-wide state ("memo discipline").

Every property quantifies over histories: the result of a call must be a function of its arguments (and of the documented object
state), whatever was called before.  A function that keeps something in a module-level variable between calls breaks that unless
the kept value is looked up under a key that is a *value snapshot* of everything the value was computed from.

What is collected (per module of the property's anchors): every function that
  - assigns a name it declares `global`,
  - stores through a subscript / attribute of a module-level name (`_memo[k] = v`, `_memo[:] = [...]`, `func.cache = ...`),
  - calls a mutating method on a module-level name (`_memo.append(...)`, `.update`, `.setdefault`, ...).
The pinned tree has no such function outside scared/_version.py (the rule then holds with "no hidden state").  When one appears,
the shape of its key decides:
  VIOLATED   the kept value is compared with an argument by object identity (`is`, `is not`, `id(...)`): an array modified in place
             between two calls keeps its identity, the stale value is returned;
  VIOLATED   the kept key is the caller's own array (or a view of it: reshape / asarray / ravel / slicing ...) - comparing it by
             value with the argument is comparing the argument with itself;
  VIOLATED   the key is built by an order-forgetting constructor (frozenset / set / sorted) of an argument registered as
             order-relevant for the property (class lists: the position of a class is its index in every result);
  VIOLATED   a kept array is handed out as a view (reshape / slicing of the module-level value in a return): a caller writing into
             the result changes what later calls return;
  HOLDS      every key component is a snapshot (`.tobytes()`, `bytes(...)`, `tuple(...)`, `.tolist()`, `.copy()`, `np.array(...)`,
             a number / string argument) and every parameter of the function occurs in the key;
  UNDECIDED  anything else (a memo whose soundness this analysis cannot show).
"""
import ast

from .model import norm

MUTATORS = {'append', 'extend', 'insert', 'update', 'setdefault', 'clear', 'pop', 'popitem', 'add', 'remove', 'discard', 'sort', 'reverse', 'fill', 'put', 'itemset', 'resize'}
VIEW_METHODS = {'reshape', 'view', 'ravel', 'squeeze', 'swapaxes', 'transpose', 'T', 'real', 'imag', 'flat', 'diagonal'}
VIEW_FUNCS = {'asarray', 'asanyarray', 'ascontiguousarray', 'atleast_1d', 'atleast_2d', 'atleast_3d', 'reshape', 'ravel', 'squeeze', 'swapaxes', 'transpose', 'moveaxis',
              'expand_dims', 'broadcast_to', 'flip', 'flipud', 'fliplr', 'rollaxis'}
SNAPSHOT_METHODS = {'tobytes', 'tostring', 'tolist', 'copy', 'item', 'astype', 'hex', 'decode', 'encode', 'sum', 'mean', 'max', 'min'}
SNAPSHOT_FUNCS = {'bytes', 'tuple', 'str', 'int', 'float', 'bool', 'repr', 'hash', 'len', 'array', 'copy', 'deepcopy', 'frozenset', 'sorted', 'set'}
ORDER_FORGETTING = {'frozenset', 'set', 'sorted', 'unique'}
SKIP_MODULES = {'scared._version'}
# (module, parameter) pairs whose order is part of the meaning: the position of a class in the list is its index in every result
ORDER_RELEVANT = {('scared.distinguishers.partitioned', 'partitions'), ('scared.distinguishers.mia', 'partitions'), ('scared.distinguishers.template', 'partitions')}


def _root(e):
    while isinstance(e, (ast.Subscript, ast.Attribute, ast.Starred)) or (isinstance(e, ast.Call) and isinstance(e.func, ast.Attribute)):
        e = e.value if not isinstance(e, ast.Call) else e.func.value
    return e.id if isinstance(e, ast.Name) else None


def _own_nodes(fnode):
    """nodes of a function excluding nested function / class bodies"""
    out = []
    stack = list(ast.iter_child_nodes(fnode))
    while stack:
        n = stack.pop()
        out.append(n)
        if isinstance(n, (ast.FunctionDef, ast.AsyncFunctionDef, ast.Lambda, ast.ClassDef)):
            continue
        stack.extend(ast.iter_child_nodes(n))
    return out


def module_state_names(m):
    names = set()
    for st in m.tree.body:
        if isinstance(st, ast.Assign):
            for t in st.targets:
                names |= {n.id for n in ast.walk(t) if isinstance(n, ast.Name)}
        elif isinstance(st, (ast.AnnAssign, ast.AugAssign)) and isinstance(st.target, ast.Name):
            names.add(st.target.id)
        elif isinstance(st, ast.FunctionDef):        # function attributes used as a cache; class attributes are documented configuration
            names.add(st.name)
    return names


def writes_of(f, modnames):
    """-> [(state name, node, description)] module-level state written by function f"""
    nodes = _own_nodes(f.node)
    glob = {n_ for n in nodes if isinstance(n, ast.Global) for n_ in n.names}
    local = set(f.params)
    for n in nodes:
        if isinstance(n, ast.Name) and isinstance(n.ctx, ast.Store) and n.id not in glob:
            local.add(n.id)
        elif isinstance(n, (ast.Import, ast.ImportFrom)):
            local |= {(a.asname or a.name).split('.')[0] for a in n.names}
    p = f.parent
    while p is not None:                 # names of enclosing functions are not module-level state
        local |= set(p.params) | {n.id for n in _own_nodes(p.node) if isinstance(n, ast.Name) and isinstance(n.ctx, ast.Store)}
        p = p.parent
    out = []
    for n in nodes:
        if isinstance(n, ast.Name) and isinstance(n.ctx, ast.Store) and n.id in glob:
            out.append((n.id, n, f'assigns the global `{n.id}`'))
        elif isinstance(n, (ast.Subscript, ast.Attribute)) and isinstance(n.ctx, (ast.Store, ast.Del)):
            r = _root(n)
            if r is not None and r not in local and (r in modnames or r in glob) and r not in ('self', 'cls'):
                out.append((r, n, f'stores into the module-level `{r}` ({norm(n)[:50]})'))
        elif isinstance(n, ast.Call) and isinstance(n.func, ast.Attribute) and n.func.attr in MUTATORS:
            r = _root(n.func.value)
            if r is not None and r not in local and (r in modnames or r in glob) and r not in ('self', 'cls') and isinstance(n.func.value, (ast.Name, ast.Subscript)):
                out.append((r, n, f'calls `{norm(n.func)[:50]}` on the module-level `{r}`'))
    return out


def _param_rooted(e, params, alias):
    """name of the parameter e is (a view of), else None; alias: local -> parameter it is a view of"""
    if isinstance(e, ast.Name):
        return e.id if e.id in params else alias.get(e.id)
    if isinstance(e, ast.Subscript):
        return _param_rooted(e.value, params, alias)
    if isinstance(e, ast.Attribute) and e.attr in VIEW_METHODS:
        return _param_rooted(e.value, params, alias)
    if isinstance(e, ast.Call) and isinstance(e.func, ast.Attribute):
        if e.func.attr in VIEW_METHODS and _root(e.func.value) not in ('np', '_np', 'numpy'):
            return _param_rooted(e.func.value, params, alias)
        if e.func.attr in VIEW_FUNCS and e.args:
            return _param_rooted(e.args[0], params, alias)
        if e.func.attr == 'astype' and any(k.arg == 'copy' and isinstance(k.value, ast.Constant) and k.value.value is False for k in e.keywords):
            return _param_rooted(e.func.value, params, alias)
    return None


def _aliases(f):
    """locals that are (views of) a parameter at some point: name -> parameter"""
    alias = {}
    params = set(f.params)
    for _ in range(3):
        for n in _own_nodes(f.node):
            if isinstance(n, ast.Assign) and len(n.targets) == 1 and isinstance(n.targets[0], ast.Name):
                p = _param_rooted(n.value, params, alias)
                if p is not None:
                    alias[n.targets[0].id] = p
    return alias


def _mentions(e, names):
    return {n.id for n in ast.walk(e) if isinstance(n, ast.Name) and n.id in names}


def _state_rooted(e, state, salias):
    r = _root(e)
    return r is not None and (r == state or r in salias)


SCALAR_ATTRS = ('shape', 'dtype', 'ndim', 'size', 'value', 'name', '__name__', 'str', 'kind', 'itemsize', 'nbytes', 'char', 'byteorder')
_HELPERS = {}        # id(prog-module) -> {function name: FunctionDef}: one-return module-level helpers (set by analyse_state)


def _snapshot(e, params, alias, helpers=None, depth=0):
    """True when the expression is a value snapshot (immutable or fresh copy) of what it mentions"""
    helpers = helpers if helpers is not None else _HELPERS.get('current', {})
    if isinstance(e, ast.Constant):
        return True
    if isinstance(e, (ast.Tuple,)):
        # a component that is a bare parameter must be hashable to serve in a dictionary key: an immutable value, not an array
        return all(_snapshot(x, params, alias, helpers, depth) or (isinstance(x, ast.Name) and x.id in params and x.id not in alias) for x in e.elts)
    if isinstance(e, ast.Call):
        nm = e.func.attr if isinstance(e.func, ast.Attribute) else (e.func.id if isinstance(e.func, ast.Name) else None)
        if nm == 'astype' and any(k.arg == 'copy' for k in e.keywords):
            return False
        if nm in SNAPSHOT_METHODS or nm in SNAPSHOT_FUNCS:
            return True
        if isinstance(e.func, ast.Name) and e.func.id in helpers and depth < 3:
            h = helpers[e.func.id]                  # a private helper `def token(a): return (a.dtype.str, a.shape, a.tobytes())`
            hp = {a.arg for a in h.args.args}
            rets = [n for n in ast.walk(h) if isinstance(n, ast.Return)]
            return len(rets) == 1 and rets[0].value is not None and _snapshot(rets[0].value, hp, {}, helpers, depth + 1)
        return False
    if isinstance(e, ast.Attribute) and e.attr in SCALAR_ATTRS:
        return True
    if isinstance(e, (ast.BinOp, ast.UnaryOp, ast.Compare, ast.BoolOp, ast.JoinedStr)):
        return True
    return False


def analyse_state(prog, m, state, funcs, order_relevant):
    """-> (status, detail, where node) for one module-level state name; funcs: the functions of m mentioning it"""
    _HELPERS['current'] = {st.name: st for st in m.tree.body if isinstance(st, ast.FunctionDef) and len([n for n in ast.walk(st) if isinstance(n, ast.Return)]) == 1}
    verdicts = []
    key_params_ok = True
    for f in funcs:
        params = set(f.params)
        alias = _aliases(f)
        nodes = _own_nodes(f.node)
        salias = set()
        for n in nodes:                       # locals read out of the state: `k, v = _memo`, `cached = _memo.get(key)`
            if isinstance(n, ast.Assign) and _root(n.value) == state and not isinstance(n.value, ast.Call) or \
                    isinstance(n, ast.Assign) and isinstance(n.value, ast.Call) and isinstance(n.value.func, ast.Attribute) and n.value.func.attr in ('get', 'pop') and _root(n.value.func.value) == state:
                for t in n.targets:
                    salias |= {x.id for x in ast.walk(t) if isinstance(x, ast.Name)}
        keys = []       # expressions used as the lookup key
        for n in nodes:
            if isinstance(n, ast.Compare):
                sides = [n.left] + list(n.comparators)
                for op, a, b in zip(n.ops, sides, sides[1:]):
                    for s_, o_ in ((a, b), (b, a)):
                        if not _state_rooted(s_, state, salias):
                            continue
                        if isinstance(o_, ast.Constant):
                            continue
                        if isinstance(op, (ast.Is, ast.IsNot)) and (_param_rooted(o_, params, alias) or _mentions(o_, params | set(alias))):
                            verdicts.append(('violated', f'`{norm(n)[:70]}` in {f.qualname}: the kept value is recognised by the identity of the argument `{_param_rooted(o_, params, alias) or sorted(_mentions(o_, params | set(alias)))[0]}`; '
                                             'an array modified in place between two calls keeps its identity, so the value computed from its old content is returned', f, n))
                        elif isinstance(op, (ast.In, ast.NotIn)):
                            pass
                    if isinstance(op, (ast.In, ast.NotIn)) and _state_rooted(b, state, salias):
                        keys.append(a)
            if isinstance(n, ast.Call) and isinstance(n.func, ast.Name) and n.func.id == 'id' and n.args and (_param_rooted(n.args[0], params, alias)):
                verdicts.append(('violated', f'`{norm(n)[:40]}` in {f.qualname}: the key is the identity of the argument `{_param_rooted(n.args[0], params, alias)}`, which survives in-place modification '
                                 '(and may be reused by another object)', f, n))
            if isinstance(n, ast.Call) and isinstance(n.func, ast.Attribute) and n.func.attr in ('get', 'setdefault', 'pop') and _root(n.func.value) == state and n.args:
                keys.append(n.args[0])
            if isinstance(n, ast.Subscript) and _root(n.value) == state and isinstance(n.value, ast.Name) and not isinstance(n.slice, (ast.Slice, ast.Constant)):
                keys.append(n.slice)
            if isinstance(n, ast.Call) and norm(n.func).split('.')[-1] in ('array_equal', 'array_equiv', 'allclose') and len(n.args) >= 2:
                for s_, o_ in ((n.args[0], n.args[1]), (n.args[1], n.args[0])):
                    if _state_rooted(s_, state, salias) and _param_rooted(o_, params, alias):
                        keys.append(('cmp', o_))
            if isinstance(n, ast.Return) and n.value is not None:
                v = n.value
                cands = [v] + ([v.body, v.orelse] if isinstance(v, ast.IfExp) else [])
                for c in cands:
                    if _state_rooted(c, state, salias) and (isinstance(c, ast.Subscript) and isinstance(c.slice, (ast.Slice, ast.Tuple)) or
                                                               isinstance(c, ast.Call) and isinstance(c.func, ast.Attribute) and c.func.attr in VIEW_METHODS):
                        verdicts.append(('violated', f'`return {norm(c)[:60]}` in {f.qualname}: an array kept in `{state}` is handed out as a view; a caller writing into the result changes what later calls return', f, n))
        # what is stored
        stored = []
        for n in nodes:
            if isinstance(n, (ast.Assign, ast.AugAssign)):
                tg = n.targets if isinstance(n, ast.Assign) else [n.target]
                for t in tg:
                    if _root(t) == state:
                        if isinstance(t, ast.Subscript) and isinstance(t.value, ast.Name) and not isinstance(t.slice, ast.Slice):
                            keys.append(t.slice)
                        vals = n.value.elts if isinstance(n.value, (ast.Tuple, ast.List)) else [n.value]
                        stored.extend(vals)
            if isinstance(n, ast.Call) and isinstance(n.func, ast.Attribute) and n.func.attr in MUTATORS and _root(n.func.value) == state:
                for a in n.args:
                    stored.extend(a.elts if isinstance(a, (ast.Tuple, ast.List)) else [a])
        kept_alias = {}
        for v in stored:
            p = _param_rooted(v, params, alias)
            if p is not None:
                kept_alias[p] = v
        for k in keys:
            if isinstance(k, tuple):          # value comparison of a kept component with an argument
                p = _param_rooted(k[1], params, alias)
                if p in kept_alias:
                    verdicts.append(('violated', f'{f.qualname} keeps `{norm(kept_alias[p])[:40]}` - the caller\'s own array `{p}` (or a view of it), not a copy - in `{state}` and later compares it with the argument by value: '
                                     'after an in-place modification the argument is compared with itself and the stale value is returned', f, k[1]))
                continue
            # local key variable: resolve one level
            ke = k
            if isinstance(ke, ast.Name) and ke.id not in params:
                for n in nodes:
                    if isinstance(n, ast.Assign) and len(n.targets) == 1 and isinstance(n.targets[0], ast.Name) and n.targets[0].id == ke.id:
                        ke = n.value
                        break
            p = _param_rooted(ke, params, alias)
            if p is not None and not isinstance(ke, ast.Name):
                verdicts.append(('undecided', f'{f.qualname}: key `{norm(ke)[:50]}` is the argument `{p}` itself', f, k))
            for c in ast.walk(ke):
                if isinstance(c, ast.Call) and norm(c.func).split('.')[-1] in ORDER_FORGETTING:
                    ment = _mentions(c, params | set(alias))
                    ment = {alias.get(x, x) for x in ment}
                    hit = [x for x in ment if (m.name, x) in order_relevant]
                    if hit:
                        verdicts.append(('violated', f'{f.qualname}: the key `{norm(ke)[:60]}` forgets the order of `{hit[0]}`, but the position of a class in `{hit[0]}` is its index in every result: '
                                         'a second object declaring the same classes in another order receives the lookup built for the first', f, k))
                    elif ment:
                        verdicts.append(('undecided', f'{f.qualname}: the key `{norm(ke)[:60]}` forgets the order of `{sorted(ment)[0]}`; whether the kept value depends on that order is not decided here', f, k))
            if not _snapshot(ke, params, alias) and not (isinstance(ke, ast.Name) and ke.id in params):
                verdicts.append(('undecided', f'{f.qualname}: key `{norm(ke)[:50]}` is not a recognised value snapshot', f, k))
            deps = set()
            work = [x_ for v_ in stored for x_ in _mentions(v_, {n_.id for n_ in nodes if isinstance(n_, ast.Name)})]
            while work:                        # parameters the kept values are computed from (def-use closure over the locals)
                x_ = work.pop()
                if x_ in deps:
                    continue
                deps.add(x_)
                for n_ in nodes:
                    if isinstance(n_, (ast.Assign, ast.AugAssign)):
                        tg_ = n_.targets if isinstance(n_, ast.Assign) else [n_.target]
                        if any(isinstance(y_, ast.Name) and y_.id == x_ for t_ in tg_ for y_ in ast.walk(t_)):
                            work.extend(y_.id for y_ in ast.walk(n_.value) if isinstance(y_, ast.Name))
                    elif isinstance(n_, (ast.For,)) and any(isinstance(y_, ast.Name) and y_.id == x_ for y_ in ast.walk(n_.target)):
                        work.extend(y_.id for y_ in ast.walk(n_.iter) if isinstance(y_, ast.Name))
            in_key = {alias.get(y, y) for y in _mentions(ke, params | set(alias))}
            key_locals = {y.id for y in ast.walk(k) if isinstance(y, ast.Name)}
            missing = [x for x in f.params if x not in ('self', 'cls') and x in deps and x not in in_key and x not in key_locals]
            if missing and any(_root(t) == state for n in nodes if isinstance(n, (ast.Assign, ast.AugAssign)) for t in (n.targets if isinstance(n, ast.Assign) else [n.target])):
                key_params_ok = False
                verdicts.append(('undecided', f'{f.qualname}: parameter `{missing[0]}` does not occur in the key `{norm(ke)[:50]}`', f, k))
        if not keys and any(_root(n) == state for n in nodes if isinstance(n, ast.Name) and isinstance(n.ctx, ast.Load)) and not stored:
            pass
    for st_ in ('violated', 'undecided'):
        for v in verdicts:
            if v[0] == st_:
                return v
    if not verdicts and not any(True for _ in funcs):
        return ('holds', 'not referenced', None, None)
    # state written, keys (if any) are snapshots covering the parameters
    if any(isinstance(n, ast.Compare) or isinstance(n, ast.Call) for f in funcs for n in _own_nodes(f.node)) and key_params_ok:
        has_key = False
        for f in funcs:
            for n in _own_nodes(f.node):
                if isinstance(n, ast.Subscript) and _root(n.value) == state and not isinstance(n.slice, (ast.Slice, ast.Constant)):
                    has_key = True
                if isinstance(n, ast.Call) and isinstance(n.func, ast.Attribute) and n.func.attr in ('get', 'setdefault') and _root(n.func.value) == state:
                    has_key = True
        if has_key:
            return ('holds', 'every key is a value snapshot covering the parameters', funcs[0], None)
    return ('undecided', f'`{state}` is written between calls and no keyed lookup by value snapshot was recognised', funcs[0], None)


def state_status(prog, modname, state, order_relevant=None):
    """status of one module-level name under the memo discipline ('holds' / 'violated' / 'undecided'; None: never written by a function)"""
    m = prog.mods.get(modname)
    if m is None:
        return None
    names = module_state_names(m)
    fs = prog.funcs_in(modname)
    if not any(s == state for f in fs for s, _, _ in writes_of(f, names)):
        return None
    funcs = [f for f in fs if any(isinstance(n, ast.Name) and n.id == state for n in _own_nodes(f.node))]
    return analyse_state(prog, m, state, funcs, set(ORDER_RELEVANT if order_relevant is None else order_relevant))[0]


def factory_class_stores(prog, f):
    """stores `K.attr = <value depending on f's parameters>` where K denotes a class (a name resolving to a class of the package, or a
    local bound only to such names) of which f also creates and returns an instance: per-instance configuration placed on the class
    is shared by every instance, the one returned earlier included.  -> [(node, class names, attr)]"""
    own = _own_nodes(f.node)
    params = set(f.params)
    class_locals = {}
    for n in own:
        if isinstance(n, ast.Assign):
            for t, v in ([(n.targets[0], n.value)] if not (isinstance(n.targets[0], ast.Tuple) and isinstance(n.value, ast.Tuple) and len(n.targets[0].elts) == len(n.value.elts))
                         else list(zip(n.targets[0].elts, n.value.elts))):
                if isinstance(t, ast.Name) and isinstance(v, ast.Name):
                    r = prog.resolve(f.mod, v)
                    if r is not None and r[0] == 'class':
                        class_locals.setdefault(t.id, set()).add(r[1].name)
                    else:
                        class_locals.setdefault(t.id, set()).add(None)
                elif isinstance(t, ast.Name):
                    class_locals.setdefault(t.id, set()).add(None)

    def classes_of(e):
        if not isinstance(e, ast.Name):
            return None
        if e.id in class_locals:
            return None if None in class_locals[e.id] else class_locals[e.id]
        if e.id in params:
            return None
        r = prog.resolve(f.mod, e)
        return {r[1].name} if r is not None and r[0] == 'class' else None
    created = set()
    for n in own:
        if isinstance(n, ast.Call):
            cs = classes_of(n.func)
            if cs:
                created |= cs
    out = []
    for n in own:
        if isinstance(n, ast.Assign):
            for t in n.targets:
                if isinstance(t, ast.Attribute):
                    cs = classes_of(t.value)
                    if cs and cs & created and _mentions(n.value, params):
                        out.append((n, sorted(cs), t.attr))
    return out


def hidden_state(ctx, prog, clause, modnames, order_relevant=()):
    """one obligation per anchored module ("no hidden module-level state") or per written state name"""
    order_relevant = set(order_relevant)
    n_funcs = 0
    for mn in sorted(set(modnames)):
        if mn in SKIP_MODULES or mn not in prog.mods:
            continue
        m = prog.mods[mn]
        names = module_state_names(m)
        fs = prog.funcs_in(mn)
        n_funcs += len(fs)
        written = {}
        for f in fs:
            for s, node, desc in writes_of(f, names):
                written.setdefault(s, []).append((f, node, desc))
        for f in fs:
            for node, cs, attr in factory_class_stores(prog, f):
                ctx.fail(clause, f'{f.key}::{norm(node)[:80]}', f'{f.qualname} stores `{attr}` - a value that depends on its arguments - on the class {"/".join(cs)} and returns an instance of it: the attribute is shared by every '
                         f'instance, so an object created earlier starts using the configuration of the one created last', f.where(node))
        if not written:
            ctx.ok(clause, f'{mn}::no hidden state', f'{len(fs)} functions: none assigns a global, stores into or mutates a module-level name', m.relpath)
            continue
        for s, ws in sorted(written.items()):
            funcs = [f for f in fs if any(isinstance(n, ast.Name) and n.id == s for n in _own_nodes(f.node))]
            status, detail, f_, node = analyse_state(prog, m, s, funcs, order_relevant)
            where = (f_.where(node) if f_ is not None and node is not None and hasattr(node, 'lineno') else ws[0][0].where(ws[0][1]))
            key = f'{mn}::module-level state `{s}`'
            head = f'{ws[0][0].qualname} {ws[0][2]}; '
            if status == 'holds':
                ctx.ok(clause, key, head + detail, where)
            elif status == 'violated':
                ctx.fail(clause, key, head + detail, where)
            else:
                ctx.undecided(clause, key, head + detail, where)
    return n_funcs
