"""Obligations, verdicts, evidence, replay files and known findings.

Three outcomes per property (DESIGN.md section 1):
  exit 0  every obligation decided and holds (or is an open known finding, printed as KNOWN-FINDING)
  exit 1  a decided obligation fails            -> VIOLATION property=<id> replay=<path>
  exit 2  something could not be decided        -> ANALYSIS-ERROR property=<id> ...
"""
import json
import os
import time

VERIF = os.path.dirname(os.path.dirname(os.path.abspath(__file__)))
EVIDENCE_DIR = os.path.join(VERIF, 'evidence')
REPLAY_DIR = os.path.join(VERIF, 'replays')
KNOWN = os.path.join(VERIF, 'known_findings.json')

HOLDS, VIOLATED, UNDECIDED = 'holds', 'violated', 'undecided'


class Ob:
    __slots__ = ('rule', 'construct', 'status', 'detail', 'where', 'facts')

    def __init__(self, rule, construct, status, detail='', where='', facts=None):
        self.rule = rule              # e.g. 'C16-D1'
        self.construct = construct    # stable key: module:qualname::normalised statement / instance name
        self.status = status
        self.detail = detail
        self.where = where            # file:line (output only, never part of the identity)
        self.facts = facts or {}

    def as_dict(self):
        return {'rule': self.rule, 'construct': self.construct, 'status': self.status, 'detail': self.detail,
                'where': self.where, 'facts': self.facts}


class Ctx:
    def __init__(self, prop, tier='quick', seed=0):
        self.prop = prop
        self.tier = tier
        self.seed = seed
        self.obs = []
        self.units = {}        # what was analysed: name -> count or list
        self.floors = []       # (name, count, minimum)
        self.rules = {}        # rule id -> text
        self.assumptions = []
        self.notes = []
        self.t0 = time.time()
        self._seen = set()

    # -- recording
    def rule(self, rid, text):
        self.rules[rid] = text

    def _add(self, ob):
        k = (ob.rule, ob.construct, ob.status)
        if k in self._seen:
            return ob
        self._seen.add(k)
        self.obs.append(ob)
        return ob

    def ok(self, rule, construct, detail='', where='', **facts):
        return self._add(Ob(rule, construct, HOLDS, detail, where, facts))

    def fail(self, rule, construct, detail, where='', **facts):
        return self._add(Ob(rule, construct, VIOLATED, detail, where, facts))

    def undecided(self, rule, construct, detail, where='', **facts):
        return self._add(Ob(rule, construct, UNDECIDED, detail, where, facts))

    def check(self, cond, rule, construct, detail_fail, detail_ok='', where='', **facts):
        if cond:
            return self.ok(rule, construct, detail_ok, where, **facts)
        return self.fail(rule, construct, detail_fail, where, **facts)

    def pattern(self, cond, rule, construct, detail_unknown, detail_ok='', where='', **facts):
        """a whole-shape pattern: recognised => holds; not recognised => undecided (never a violation: another shape may
        be just as correct)"""
        if cond:
            return self.ok(rule, construct, detail_ok, where, **facts)
        return self.undecided(rule, construct, detail_unknown + ' (shape not recognised: cannot decide)', where, **facts)

    def unit(self, name, value):
        self.units[name] = value

    def count(self, name, n=1):
        self.units[name] = self.units.get(name, 0) + n

    def floor(self, name, count, minimum):
        """An instance count that must not fall below what was confirmed by reading."""
        self.floors.append((name, count, minimum))

    def assume(self, text):
        if text not in self.assumptions:
            self.assumptions.append(text)

    def note(self, text):
        self.notes.append(text)


def load_known():
    if not os.path.exists(KNOWN):
        return {'open': [], 'fixed': []}
    return json.load(open(KNOWN))


def finish(ctx, replay_filter=None, write_evidence=True, quiet=False):
    """Apply known findings, write evidence/replays, print the verdict lines, return the exit code."""
    known = load_known()
    opens = [k for k in known.get('open', []) if k.get('property') == ctx.prop]
    viol = [o for o in ctx.obs if o.status == VIOLATED]
    und = [o for o in ctx.obs if o.status == UNDECIDED]
    holds = [o for o in ctx.obs if o.status == HOLDS]
    floor_fail = [(n, c, m) for n, c, m in ctx.floors if c < m]

    known_hit, new_viol = [], []
    for o in viol:
        hit = None
        for k in opens:
            if k['rule'] == o.rule and k['construct'] == o.construct:
                hit = k
                break
        (known_hit if hit else new_viol).append((o, hit))

    lines = []
    code = 0
    os.makedirs(REPLAY_DIR, exist_ok=True)
    replays = []
    for i, (o, _) in enumerate(new_viol):
        path = os.path.join(REPLAY_DIR, f'{ctx.prop}-{i}.json')
        json.dump({'property': ctx.prop, 'rule': o.rule, 'construct': o.construct, 'detail': o.detail,
                   'where': o.where, 'facts': o.facts, 'rule_text': ctx.rules.get(o.rule, '')},
                  open(path, 'w'), indent=1, default=str)
        replays.append(path)
        lines.append(f'  {o.rule} {o.where} {o.construct}\n      {o.detail}')
        lines.append(f'VIOLATION property={ctx.prop} replay={path}')
        code = 1
    for o, k in known_hit:
        lines.append(f'KNOWN-FINDING: property={ctx.prop} {k.get("id", "")} {o.rule} {o.construct} -- {k.get("what", o.detail)}')
    if und or floor_fail:
        for o in und:
            lines.append(f'ANALYSIS-ERROR property={ctx.prop} undecided {o.rule} {o.where} {o.construct}: {o.detail}')
        for n, c, m in floor_fail:
            lines.append(f'ANALYSIS-ERROR property={ctx.prop} floor {n}: found {c} instances, confirmed minimum is {m}')
        if code == 0:
            code = 2

    wall = time.time() - ctx.t0
    distinct = len({(o.rule, o.construct) for o in holds + viol})
    samples = []
    seen_rules = set()
    for o in viol + holds:
        if o.rule in seen_rules and len(samples) >= 6:
            continue
        if o.rule in seen_rules and o.status == HOLDS:
            continue
        seen_rules.add(o.rule)
        samples.append(o.as_dict())
    for o in holds[:40]:
        if len(samples) >= 24:
            break
        d = o.as_dict()
        if d not in samples:
            samples.append(d)
    explanation = ('Static analysis of /repo/scared (ast-based; no repository code is imported or run). '
                   'Rules applied: ' + ' | '.join(f'{k}: {v}' for k, v in sorted(ctx.rules.items())))
    ev = {
        'property_id': ctx.prop,
        'tier': ctx.tier,
        'seed': ctx.seed,
        'level': 'other',
        'coverage': {
            'explanation': explanation,
            'evaluations': len(ctx.obs),
            'distinct_nontrivial': distinct,
            'rule': 'one obligation per (rule, construct) discovered in the current source tree; an obligation is '
                    'non-trivial when it was decided from facts extracted from the code (status holds or violated); '
                    'distinct = distinct (rule, construct) pairs',
            'obligations': len(ctx.obs),
            'discharged': len(holds),
            'violated': len(viol),
            'undecided': len(und),
            'known_findings_matched': len(known_hit),
            'samples': samples[:24],
            'units_analysed': ctx.units,
            'floors': [{'name': n, 'found': c, 'minimum': m} for n, c, m in ctx.floors],
            'per_rule': _per_rule(ctx),
            'exhaustive': True,
            'notes': ctx.notes,
        },
        'assumptions': ctx.assumptions,
        'wall_s': round(wall, 3),
        'violations': len(new_viol),
    }
    if write_evidence and replay_filter is None:
        os.makedirs(EVIDENCE_DIR, exist_ok=True)
        _validate(ev)
        json.dump(ev, open(os.path.join(EVIDENCE_DIR, f'{ctx.prop}.json'), 'w'), indent=1, default=str)
    if not quiet:
      try:
        print(f'[{ctx.prop}] tier={ctx.tier} obligations={len(ctx.obs)} hold={len(holds)} violated={len(viol)} '
              f'(known={len(known_hit)}) undecided={len(und)} floors={len(ctx.floors)} wall={wall:.2f}s')
        for k, v in sorted(_per_rule(ctx).items()):
            print(f'    {k}: {v}')
        for ln in lines:
            print(ln)
      except BrokenPipeError:
        # the reader closed the pipe (e.g. `| head`): the verdict is the exit code
        try:
            import sys
            sys.stdout = open(os.devnull, 'w')
        except Exception:
            pass
    return code


def _per_rule(ctx):
    out = {}
    for o in ctx.obs:
        d = out.setdefault(o.rule, {'holds': 0, 'violated': 0, 'undecided': 0})
        d[o.status] += 1
    return out


def _validate(ev):
    try:
        import jsonschema
    except Exception:
        return
    schema_path = '/root/.vp/EVIDENCE.schema.json'
    if not os.path.exists(schema_path):
        schema_path = os.path.join(VERIF, 'spec', 'EVIDENCE.schema.json')
        if not os.path.exists(schema_path):
            return
    schema = json.load(open(schema_path))
    jsonschema.validate(json.loads(json.dumps(ev, default=str)), schema)
