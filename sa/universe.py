"""Rule slots filled from the repository: which classes are distinguishers, which attributes are accumulators, ..."""
import ast

from .model import AnalysisError, norm, self_attr

DIST_BASE = ('scared.distinguishers.base', 'DistinguisherMixin')
ALLOCATORS = {'numpy.zeros', 'numpy.empty', 'numpy.ones', 'numpy.full', 'numpy.zeros_like', 'numpy.empty_like'}
ZERO_ALLOCATORS = {'numpy.zeros', 'numpy.zeros_like'}


def distinguisher_classes(prog):
    """(all classes deriving DistinguisherMixin, those that are concrete and not themselves named *Mixin)"""
    dm = prog.need_class(*DIST_BASE)
    allc = prog.subclasses_of(dm)
    concrete = []
    for ci in allc:
        ms = prog.methods_closure(ci)
        ok = all(n in ms and not prog.is_abstract(ms[n]) for n in ('_initialize', '_update', '_compute'))
        if ok and not ci.name.endswith('Mixin'):
            concrete.append(ci)
    return allc, concrete


def mixin_classes(prog):
    dm = prog.need_class(*DIST_BASE)
    out = []
    for ci in prog.subclasses_of(dm):
        ms = prog.methods_closure(ci)
        if ci.name.endswith('Mixin') and all(n in ms and not prog.is_abstract(ms[n]) for n in ('_initialize', '_update', '_compute')):
            out.append(ci)
    return out


def analysis_classes(prog, concrete):
    base = prog.need_class('scared.analysis.base', '_BaseAnalysis')
    return [c for c in concrete if base in prog.mro(c)]


def family(prog, ci):
    """coarse family of a distinguisher class, by the class defining its `_update`."""
    f = prog.resolve_method(ci, '_update')
    return f.cls.name if f and f.cls else '?'


def init_closure(prog, ci, entry='_initialize', extra=('_initialize_accumulators',)):
    """functions making up the first-call initialisation of class ci (resolved self./super() calls, transitively)."""
    seen = []
    todo = [prog.resolve_method(ci, entry)]
    while todo:
        f = todo.pop()
        if f is None or f in seen:
            continue
        seen.append(f)
        for n in ast.walk(f.node):
            if isinstance(n, ast.Call) and isinstance(n.func, ast.Attribute):
                v = n.func.value
                if isinstance(v, ast.Name) and v.id == 'self':
                    todo.append(prog.resolve_method(ci, n.func.attr))
                elif isinstance(v, ast.Call) and norm(v.func) == 'super' and f.cls is not None:
                    todo.append(prog.resolve_method(ci, n.func.attr, after=f.cls))
    return seen


def accumulators(prog, ci, entry='_initialize'):
    """attribute -> (Func, Assign) for attributes bound to a zero allocation (numpy.zeros) in ci's initialisation
    closure: the accumulators of the class (discovered, not listed)."""
    out = {}
    for f in init_closure(prog, ci, entry):
        for n in ast.walk(f.node):
            if isinstance(n, ast.Assign) and isinstance(n.value, ast.Call):
                if prog.dotted(f.mod, n.value.func) in ZERO_ALLOCATORS:
                    for t in n.targets:
                        a = self_attr(t)
                        if a and isinstance(t, ast.Attribute):
                            out[a] = (f, n)
    return out


def need(cond, msg):
    if not cond:
        raise AnalysisError(msg)


_scalar_cache = {}


def scalar_attrs(prog):
    """attribute names that only ever hold immutable scalars (so `obj.attr op= v` rebinds, it cannot mutate in place):
    every plain binding in the package assigns a scalar constant, or a parameter that all call sites bind to a scalar
    constant."""
    if '_scalar_attrs' in prog.__dict__:
        return prog.__dict__['_scalar_attrs']
    from . import kernels
    binds = {}
    for f in prog.funcs:
        for t, st, how in kernels.stores(f.node):
            if isinstance(t, ast.Attribute) and how == 'bind':
                binds.setdefault(t.attr, []).append((f, st.value if not isinstance(st, ast.AugAssign) else None))
    for ci in prog.classes.values():
        for name, v in ci.class_assigns.items():
            binds.setdefault(name, []).append((None, v))

    def scalar_const(v):
        return isinstance(v, ast.Constant) and isinstance(v.value, (int, float, bool, str, type(None)))

    def param_always_const(f, pname):
        sites = 0
        for g in prog.funcs:
            for n in ast.walk(g.node):
                if isinstance(n, ast.Call):
                    d = prog.dotted(g.mod, n.func) if isinstance(n.func, (ast.Name, ast.Attribute)) else None
                    if d == f.mod.name + '.' + f.qualname:
                        params = f.params
                        arg = None
                        for i, a in enumerate(n.args):
                            if i < len(params) and params[i] == pname:
                                arg = a
                        for k in n.keywords:
                            if k.arg == pname:
                                arg = k.value
                        if arg is None or not scalar_const(arg):
                            return False
                        sites += 1
        return sites > 0
    out = set()
    for name, lst in binds.items():
        ok = True
        for f, v in lst:
            if v is None:
                ok = False
            elif scalar_const(v):
                continue
            elif isinstance(v, ast.Name) and f is not None and v.id in f.params and param_always_const(f, v.id):
                continue
            else:
                ok = False
            if not ok:
                break
        if ok:
            out.add(name)
    prog.__dict__['_scalar_attrs'] = out
    return out


INIT_PARAM_EXCEPTIONS = {
    # TemplateAttack matches fixed templates: the class documents that no attack selection function is used (the parameter exists for
    # signature symmetry with TemplateDPAAttack and is replaced by an identity); confirmed by reading
    ('scared.analysis.template:TemplateAttack.__init__', 'selection_function'),
}


def ignored_init_params(prog, module_prefixes):
    """[(Func, parameter)] constructor parameters that the constructor never reads: configuration accepted and silently dropped"""
    out = []
    for f in prog.funcs:
        if f.name != '__init__' or f.cls is None or not any(f.mod.name.startswith(p) for p in module_prefixes):
            continue
        reads = {n.id for n in ast.walk(f.node) if isinstance(n, ast.Name) and isinstance(n.ctx, ast.Load)}
        if any(isinstance(n, ast.Call) and isinstance(n.func, ast.Name) and n.func.id in ('locals', 'vars') for n in ast.walk(f.node)):
            continue
        a = f.node.args
        if a.kwarg is not None and a.kwarg.arg in reads:
            pass
        for p in f.params:
            if p in ('self', 'cls') or p in reads:
                continue
            if a.vararg is not None and p == a.vararg.arg or a.kwarg is not None and p == a.kwarg.arg:
                continue
            if (f.key, p) in INIT_PARAM_EXCEPTIONS:
                continue
            out.append((f, p))
    return out


def inline_base_entry_points(ctx, prog):
    """DistinguisherMixin.update / compute with their private module-level / same-class helpers inlined in place (once per program
    instance): the rules that follow update() read one function whatever helper structure the maintainers gave it"""
    if getattr(prog, '_base_entry_points_inlined', False):
        return
    prog._base_entry_points_inlined = True
    from . import inline as _inl
    dm = prog.need_class(*DIST_BASE)
    for m in ('update', 'compute'):
        f = dm.methods.get(m)
        if f is not None:
            h = _inl.inline_in_place(prog, f, skip={'_check', '_update', '_initialize', '_compute', '_accumulate', '_initialize_accumulators'})
            if h:
                ctx.note(f'{f.key}: helpers inlined before analysis: {h}')
    # formulas moved out of a `_compute` / `compute` method into private module-level functions are read as part of the method
    for ci in list(prog.classes.values()):
        if not (ci.mod.name.startswith('scared.distinguishers') or ci.mod.name == 'scared.ttest'):
            continue
        fa = ci.methods.get('_accumulate')
        if fa is not None:
            # kernel selection moved into a shared helper method (`self._run_fastest_kernel(*args)`): read as part of _accumulate
            h = _inl.inline_in_place(prog, fa, skip={'_define_lut_func', '_initialize_accumulators'})
            if h:
                ctx.note(f'{fa.key}: helpers inlined before analysis: {h}')
        for m in ('_compute', 'compute', '_compute_metric'):
            f = ci.methods.get(m)
            if f is None:
                continue
            methods = {g.name for c_ in prog.mro(ci) for g in c_.methods.values()} | {g.name for c_ in prog.subclasses_of(ci) for g in c_.methods.values()}
            # a private method defined once in the whole package and not one of the framework's hooks is a helper, not an override point
            n_defs = {}
            for c_ in prog.classes.values():
                for g in c_.methods.values():
                    n_defs[g.name] = n_defs.get(g.name, 0) + 1
            hooks = {'_compute', 'compute', '_compute_metric', '_update', 'update', '_initialize', '_accumulate', '_initialize_accumulators', '_check', '_define_lut_func',
                     '_init_partitions', '_memory_usage', '_memory_usage_coefficient', '_distinguisher_str'}
            methods = {n_ for n_ in methods if n_defs.get(n_, 0) != 1 or n_ in hooks or not n_.startswith('_') or n_.startswith('__')}
            h = _inl.inline_in_place(prog, f, skip=methods)
            if h:
                ctx.note(f'{f.key}: module-level helpers inlined before analysis: {h}')


def binding_constants(prog, attr):
    """(set of constants plainly bound to <obj>.<attr> anywhere in the package, [(Func, node)] of bindings whose value is not a
    constant or a parameter that every call site binds to a constant); augmented assignments are not bindings"""
    from . import kernels
    from .model import const_value
    consts, other = set(), []
    for f in prog.funcs:
        for t, st, how in kernels.stores(f.node):
            if not (isinstance(t, ast.Attribute) and t.attr == attr and how == 'bind') or isinstance(st, ast.AugAssign):
                continue
            v = st.value
            if isinstance(v, ast.Constant):
                consts.add(v.value)
            elif isinstance(v, ast.Name) and v.id in f.params:
                vals, ok, sites = set(), True, 0
                for g in prog.funcs:
                    for n in ast.walk(g.node):
                        if isinstance(n, ast.Call) and isinstance(n.func, (ast.Name, ast.Attribute)) and prog.dotted(g.mod, n.func) == f.mod.name + '.' + f.qualname:
                            arg = None
                            for i, a in enumerate(n.args):
                                if i < len(f.params) and f.params[i] == v.id:
                                    arg = a
                            for k in n.keywords:
                                if k.arg == v.id:
                                    arg = k.value
                            if arg is None:
                                d = dict(zip(reversed(f.params), reversed(f.node.args.defaults)))
                                arg = d.get(v.id)
                            if isinstance(arg, ast.Constant):
                                vals.add(arg.value)
                                sites += 1
                            else:
                                ok = False
                if ok and sites:
                    consts |= vals
                else:
                    other.append((f, st))
            else:
                other.append((f, st))
    return consts, other
