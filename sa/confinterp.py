"""Partial evaluation of *configuration code* over a finite configuration domain.

The cipher drivers decide which steps run from a handful of small integers (round count, at_round, after_step, at_des, mode)
with list surgery on literal step lists.  This module interprets exactly that kind of code - integers, None, booleans, strings,
enum members, lists/tuples with object identity, attribute access on a configuration object, calls of repository helpers - with
every cipher datum opaque (`Sym`).  It is constant propagation made exact by enumerating the (small, finite) configuration
domain; nothing is imported or executed by CPython, and anything outside the subset raises Unknown (undecided, never a verdict).

Lists created from module-level or class-level literals carry an `origin` so that a store into a shared template is observed.
"""
import ast

from .model import norm, AnalysisError


class Unknown(Exception):
    pass


class Raised(Exception):
    def __init__(self, kind, node=None):
        super().__init__(kind)
        self.kind = kind
        self.node = node


class Sym:
    """opaque value (function, array, anything the configuration code only passes around)"""

    def __init__(self, name, attrs=None, term=None):
        self.name = name
        self.attrs = attrs or {}
        self.term = term          # structured form for derived values: ('index', base, idx) | ('call', callee name, args, kwargs)

    def __repr__(self):
        return f'<{self.name}>'

    def __eq__(self, o):
        return isinstance(o, Sym) and o.name == self.name

    def __hash__(self):
        return hash(self.name)


def fmt(v):
    if isinstance(v, Sym):
        return v.name
    if isinstance(v, slice):
        return f'{fmt(v.start) if v.start is not None else ""}:{fmt(v.stop) if v.stop is not None else ""}' + (f':{fmt(v.step)}' if v.step is not None else '')
    if isinstance(v, tuple):
        return '(' + ','.join(fmt(x) for x in v) + ')'
    if isinstance(v, list):
        return '[' + ','.join(fmt(x) for x in v) + ']'
    if v is None:
        return 'None'
    return repr(v) if isinstance(v, str) else str(int(v)) if isinstance(v, int) and not isinstance(v, bool) else str(v)


def derived_call(name, args, kwargs):
    txt = ','.join([fmt(a) for a in args] + [f'{k}={fmt(v)}' for k, v in sorted(kwargs.items())])
    return Sym(f'{name}({txt})', term=('call', name, tuple(args), tuple(sorted(kwargs.items()))))


class Member(int):
    """member of an IntEnum: an int with a name (identity comparisons go by enum and name)"""

    def __new__(cls, value, enum, name):
        o = int.__new__(cls, value)
        o.enum, o.mname = enum, name
        return o

    def __repr__(self):
        return f'{self.enum}.{self.mname}'


class PlainMember:
    """member of a plain Enum (values of any kind): equal and identical only to itself, not ordered"""

    def __init__(self, value, enum, name):
        self.value, self.enum, self.mname = value, enum, name

    def __eq__(self, o):
        return isinstance(o, PlainMember) and (o.enum, o.mname) == (self.enum, self.mname)

    def __ne__(self, o):
        return not self.__eq__(o)

    def __hash__(self):
        return hash((self.enum, self.mname))

    def __repr__(self):
        return f'{self.enum}.{self.mname}'


class EnumClass:
    def __init__(self, name, members, plain=False):
        self.name = name
        self.members = {k: (PlainMember(v, name, k) if plain else Member(v, name, k)) for k, v in members.items()}

    def __len__(self):
        return len(self.members)


class TList(list):
    """list with an origin label (None for lists created during the evaluation)"""
    origin = None


class Obj:
    def __init__(self, cls=None, **attrs):
        self.cls = cls
        self.attrs = dict(attrs)


class Interp:
    def __init__(self, prog, max_depth=8, max_steps=200000):
        self.prog = prog
        self.max_depth = max_depth
        self.steps = 0
        self.max_steps = max_steps
        self.globals = {}          # (module name, name) -> value
        self.class_attrs = {}      # (class key, name) -> value
        self.template_writes = []  # (origin, node)

    # ------------------------------------------------------------------ environment
    def module_value(self, mod, name):
        k = (mod.name, name)
        if k in self.globals:
            return self.globals[k]
        r = self.prog.lookup(mod, name)
        if r is None:
            raise Unknown(f'name {name}')
        if r[0] == 'func':
            v = Sym(r[1].key)
            v.func = r[1]
        elif r[0] == 'class':
            ci = r[1]
            if any('Enum' in b for b in ci.ext_bases):
                from .enumtab import enum_members, plain_members
                pm_ = plain_members(self.prog, ci) if not any('IntEnum' in b or 'IntFlag' in b for b in ci.ext_bases) else None
                v = EnumClass(ci.name, pm_, plain=True) if pm_ is not None else EnumClass(ci.name, enum_members(self.prog, ci.mod.name, ci.name))
            else:
                v = Sym('class ' + ci.key)
                v.cls = ci
        elif r[0] == 'value':
            m2, node = r[1], r[2]
            v = self.ev(node, {}, m2, None, 0)
            if isinstance(v, list):
                v = self.label(v, f'{m2.name}.{name}')
        elif r[0] in ('ext', 'mod'):
            v = Sym(str(r[1] if r[0] == 'ext' else r[1].name))
            if r[0] == 'mod':
                v.module = r[1]
        else:
            raise Unknown(f'name {name}')
        self.globals[k] = v
        return v

    def label(self, v, origin):
        t = TList(v)
        t.origin = origin
        return t

    def class_value(self, ci, name):
        got = self.prog.class_attr(ci, name)
        if got is None:
            return None
        owner, node = got
        k = (owner.key, name)
        if k not in self.class_attrs:
            scope = ClassScope(self, owner)
            v = self.ev(node, scope, owner.mod, None, 0)
            if isinstance(v, list):
                v = self.label(v, f'{owner.name}.{name}')
            self.class_attrs[k] = v
        return self.class_attrs[k]

    # ------------------------------------------------------------------ calls
    def call(self, func, args=(), kwargs=None, selfobj=None, depth=0):
        if depth > self.max_depth:
            raise Unknown('call depth')
        kwargs = dict(kwargs or {})
        a = func.node.args
        params = [x.arg for x in a.posonlyargs + a.args]
        env = {}
        pos = list(args)
        if selfobj is not None and params and params[0] == 'self':
            env['self'] = selfobj
            params = params[1:]
        defaults = dict(zip(params[len(params) - len(a.defaults):], a.defaults)) if a.defaults else {}
        for i, p in enumerate(params):
            if i < len(pos):
                env[p] = pos[i]
            elif p in kwargs:
                env[p] = kwargs.pop(p)
            elif p in defaults:
                env[p] = self.ev(defaults[p], {}, func.mod, None, depth)
            else:
                raise Unknown(f'parameter {p} of {func.name} unbound')
        for k, d in zip(a.kwonlyargs, a.kw_defaults):
            if k.arg in kwargs:
                env[k.arg] = kwargs.pop(k.arg)
            elif d is not None:
                env[k.arg] = self.ev(d, {}, func.mod, None, depth)
        if kwargs:
            raise Unknown(f'unexpected keyword arguments {sorted(kwargs)} for {func.name}')
        try:
            self.block(func.node.body, env, func, depth)
        except _Return as r:
            return r.value
        return None

    # ------------------------------------------------------------------ statements
    def block(self, stmts, env, func, depth):
        for st in stmts:
            self.stmt(st, env, func, depth)

    def stmt(self, st, env, func, depth):
        self.steps += 1
        if self.steps > self.max_steps:
            raise Unknown('evaluation budget exceeded')
        mod = func.mod
        if isinstance(st, ast.Expr):
            if not isinstance(st.value, ast.Constant):
                self.ev(st.value, env, mod, func, depth)
            return
        if isinstance(st, ast.Pass):
            return
        if isinstance(st, ast.Return):
            raise _Return(self.ev(st.value, env, mod, func, depth) if st.value is not None else None)
        if isinstance(st, ast.Raise):
            kind = norm(st.exc.func) if isinstance(st.exc, ast.Call) else (norm(st.exc) if st.exc is not None else 'raise')
            raise Raised(kind, st)
        if isinstance(st, ast.Assign):
            v = self.ev(st.value, env, mod, func, depth)
            for t in st.targets:
                self.assign(t, v, env, mod, func, depth, st)
            return
        if isinstance(st, ast.AnnAssign) and st.value is not None:
            self.assign(st.target, self.ev(st.value, env, mod, func, depth), env, mod, func, depth, st)
            return
        if isinstance(st, ast.AugAssign):
            cur = self.ev(st.target, env, mod, func, depth)
            v = self.binop(st.op, cur, self.ev(st.value, env, mod, func, depth))
            self.assign(st.target, v, env, mod, func, depth, st)
            return
        if isinstance(st, ast.If):
            c = self.truth(self.ev(st.test, env, mod, func, depth))
            self.block(st.body if c else st.orelse, env, func, depth)
            return
        if isinstance(st, ast.For):
            it = self.ev(st.iter, env, mod, func, depth)
            if not isinstance(it, (list, tuple, range)):
                raise Unknown(f'loop over `{norm(st.iter)[:40]}`')
            broke = False
            for x in list(it):
                self.assign(st.target, x, env, mod, func, depth, st)
                try:
                    self.block(st.body, env, func, depth)
                except _Break:
                    broke = True
                    break
                except _Continue:
                    continue
            if not broke:
                self.block(st.orelse, env, func, depth)
            return
        if isinstance(st, ast.While):
            broke = False
            for _ in range(4096):
                c = self.ev(st.test, env, mod, func, depth)
                if isinstance(c, Sym) or not isinstance(c, (bool, int)) and c is not None:
                    raise Unknown(f'loop condition `{norm(st.test)[:40]}` on a symbolic value')
                if not c:
                    break
                try:
                    self.block(st.body, env, func, depth)
                except _Break:
                    broke = True
                    break
                except _Continue:
                    continue
            else:
                raise Unknown('loop bound')
            if not broke:
                self.block(st.orelse, env, func, depth)
            return
        if isinstance(st, ast.Delete):
            for t in st.targets:
                if not isinstance(t, ast.Subscript):
                    raise Unknown('del of a name')
                o = self.ev(t.value, env, mod, func, depth)
                if not isinstance(o, list):
                    raise Unknown('del on a non list')
                if getattr(o, 'origin', None):
                    self.template_writes.append((o.origin, st))
                if isinstance(t.slice, ast.Slice):
                    lo = self.ev(t.slice.lower, env, mod, func, depth) if t.slice.lower is not None else None
                    hi = self.ev(t.slice.upper, env, mod, func, depth) if t.slice.upper is not None else None
                    del o[slice(lo, hi)]
                else:
                    del o[self.ev(t.slice, env, mod, func, depth)]
            return
        if isinstance(st, ast.Break):
            raise _Break()
        if isinstance(st, ast.Continue):
            raise _Continue()
        raise Unknown(f'statement `{norm(st)[:60]}`')

    def assign(self, t, v, env, mod, func, depth, st):
        if isinstance(t, ast.Name):
            env[t.id] = v
            return
        if isinstance(t, (ast.Tuple, ast.List)):
            if not isinstance(v, (list, tuple)) or len(v) != len(t.elts):
                raise Unknown('unpacking')
            for x, y in zip(t.elts, v):
                self.assign(x, y, env, mod, func, depth, st)
            return
        if isinstance(t, ast.Attribute):
            o = self.ev(t.value, env, mod, func, depth)
            if isinstance(o, Obj):
                o.attrs[t.attr] = v
                return
            raise Unknown(f'attribute store on `{norm(t.value)[:30]}`')
        if isinstance(t, ast.Subscript):
            o = self.ev(t.value, env, mod, func, depth)
            if not isinstance(o, list):
                raise Unknown(f'item store into `{norm(t.value)[:30]}`')
            if getattr(o, 'origin', None):
                self.template_writes.append((o.origin, st))
            if isinstance(t.slice, ast.Slice):
                raise Unknown('slice store')
            i = self.ev(t.slice, env, mod, func, depth)
            if not isinstance(i, int) or isinstance(i, bool):
                raise Unknown('store index')
            if not -len(o) <= i < len(o):
                raise Raised('IndexError', st)
            o[i] = v
            return
        raise Unknown(f'assignment target `{norm(t)[:40]}`')

    # ------------------------------------------------------------------ expressions
    @staticmethod
    def truth(v):
        if isinstance(v, Sym):
            raise Unknown(f'truth value of opaque {v}')
        if isinstance(v, (Obj, EnumClass)):
            return True
        return bool(v)

    def binop(self, op, a, b):
        import operator
        if isinstance(a, Sym) or isinstance(b, Sym):
            raise Unknown('arithmetic on an opaque value')
        ops = {ast.Add: operator.add, ast.Sub: operator.sub, ast.Mult: operator.mul, ast.FloorDiv: operator.floordiv, ast.Mod: operator.mod,
               ast.Div: operator.truediv, ast.LShift: operator.lshift, ast.RShift: operator.rshift, ast.BitAnd: operator.and_, ast.BitOr: operator.or_,
               ast.BitXor: operator.xor, ast.Pow: operator.pow}
        if type(op) not in ops:
            raise Unknown(type(op).__name__)
        try:
            r = ops[type(op)](a, b)
        except ZeroDivisionError:
            raise Raised('ZeroDivisionError')
        except TypeError:
            raise Raised('TypeError')
        if isinstance(r, list) and not isinstance(r, TList):
            r = TList(r)
        return r

    def ev(self, e, env, mod, func, depth):
        if isinstance(e, ast.Constant):
            return e.value
        if isinstance(e, ast.JoinedStr):
            return '<text>'
        if isinstance(e, ast.Name):
            if isinstance(env, ClassScope):
                v = env.get(e.id)
                if v is not _MISSING:
                    return v
            elif e.id in env:
                return env[e.id]
            if e.id in ('True', 'False', 'None'):
                return {'True': True, 'False': False, 'None': None}[e.id]
            if e.id in ('int', 'str', 'list', 'tuple', 'float', 'bool'):
                return Sym('builtin ' + e.id)
            return self.module_value(mod, e.id)
        if isinstance(e, (ast.List, ast.Tuple)):
            vals = [self.ev(x, env, mod, func, depth) for x in e.elts]
            return TList(vals) if isinstance(e, ast.List) else tuple(vals)
        if isinstance(e, ast.UnaryOp):
            v = self.ev(e.operand, env, mod, func, depth)
            if isinstance(e.op, ast.Not):
                return not self.truth(v)
            if isinstance(e.op, ast.USub) and isinstance(v, int):
                return -v
            if isinstance(e.op, ast.UAdd) and isinstance(v, int):
                return v
            raise Unknown('unary operator')
        if isinstance(e, ast.BinOp):
            return self.binop(e.op, self.ev(e.left, env, mod, func, depth), self.ev(e.right, env, mod, func, depth))
        if isinstance(e, ast.BoolOp):
            v = None
            for x in e.values:
                v = self.ev(x, env, mod, func, depth)
                t = self.truth(v)
                if isinstance(e.op, ast.And) and not t:
                    return v
                if isinstance(e.op, ast.Or) and t:
                    return v
            return v
        if isinstance(e, ast.IfExp):
            return self.ev(e.body if self.truth(self.ev(e.test, env, mod, func, depth)) else e.orelse, env, mod, func, depth)
        if isinstance(e, ast.Compare):
            left = self.ev(e.left, env, mod, func, depth)
            for op, c in zip(e.ops, e.comparators):
                right = self.ev(c, env, mod, func, depth)
                if not self.compare(op, left, right):
                    return False
                left = right
            return True
        if isinstance(e, ast.Attribute):
            o = self.ev(e.value, env, mod, func, depth)
            if isinstance(o, EnumClass):
                if e.attr in o.members:
                    return o.members[e.attr]
                raise Unknown(f'enum member {e.attr}')
            if isinstance(o, Obj):
                if e.attr in o.attrs:
                    return o.attrs[e.attr]
                if o.cls is not None:
                    v = self.class_value(o.cls, e.attr)
                    if v is not None:
                        return v
                    m = self.prog.resolve_method(o.cls, e.attr)
                    if m is not None:
                        return ('bound', m, o)
                raise Unknown(f'attribute {e.attr} of the configuration object')
            if isinstance(o, Member) and e.attr == 'value':
                return int(o)
            if isinstance(o, PlainMember) and e.attr == 'value':
                return o.value
            if isinstance(o, (Member, PlainMember)) and e.attr == 'name':
                return o.mname
            if isinstance(o, Sym) and getattr(o, 'cls', None) is not None:
                v = self.class_value(o.cls, e.attr)
                if v is not None:
                    return v
            if isinstance(o, Sym) and getattr(o, 'module', None) is not None:
                return self.module_value(o.module, e.attr)
            if isinstance(o, Sym) and e.attr in o.attrs:
                return o.attrs[e.attr]
            if isinstance(o, Sym) and o.name in ('numpy', 'np') or isinstance(o, Sym) and o.name.startswith('numpy.'):
                return Sym(f'{o.name}.{e.attr}')
            raise Unknown(f'attribute `{norm(e)[:40]}`')
        if isinstance(e, ast.Subscript):
            o = self.ev(e.value, env, mod, func, depth)
            if isinstance(o, Sym):
                idx = self.index_value(e.slice, env, mod, func, depth)
                txt = fmt(idx)
                if isinstance(idx, tuple):
                    txt = txt[1:-1]
                return Sym(f'{o.name}[{txt}]', term=('index', o, idx))
            if isinstance(e.slice, ast.Slice):
                lo = self.ev(e.slice.lower, env, mod, func, depth) if e.slice.lower is not None else None
                hi = self.ev(e.slice.upper, env, mod, func, depth) if e.slice.upper is not None else None
                stp = self.ev(e.slice.step, env, mod, func, depth) if e.slice.step is not None else None
                if not isinstance(o, (list, tuple, str, range)):
                    raise Unknown('slice of a non sequence')
                if any(isinstance(x, Sym) for x in (lo, hi, stp)):
                    raise Unknown('slice bound is opaque')
                r = o[slice(lo, hi, stp)]
                return TList(r) if isinstance(r, list) else r
            i = self.ev(e.slice, env, mod, func, depth)
            if isinstance(o, dict):
                if i in o:
                    return o[i]
                raise Raised('KeyError', e)
            if isinstance(o, (list, tuple, str)) and isinstance(i, int) and not isinstance(i, bool):
                if not -len(o) <= i < len(o):
                    raise Raised('IndexError', e)
                return o[i]
            raise Unknown(f'subscript `{norm(e)[:40]}`')
        if isinstance(e, (ast.ListComp, ast.GeneratorExp)):
            out = TList()

            def rec(gi, scope):
                if gi == len(e.generators):
                    out.append(self.ev(e.elt, scope, mod, func, depth))
                    return
                g = e.generators[gi]
                src = self.ev(g.iter, scope, mod, func, depth)
                if not isinstance(src, (list, tuple, range)):
                    raise Unknown('comprehension source')
                for x in list(src):
                    sc = dict(scope) if not isinstance(scope, ClassScope) else {}
                    self.assign(g.target, x, sc, mod, func, depth, e)
                    if all(self.truth(self.ev(c, sc, mod, func, depth)) for c in g.ifs):
                        rec(gi + 1, sc)
            rec(0, env)
            return out
        if isinstance(e, ast.Dict):
            return {self.ev(k, env, mod, func, depth): self.ev(v, env, mod, func, depth) for k, v in zip(e.keys, e.values)}
        if isinstance(e, ast.Call):
            return self.callexpr(e, env, mod, func, depth)
        raise Unknown(f'expression `{norm(e)[:50]}`')

    def index_value(self, sl, env, mod, func, depth):
        if isinstance(sl, ast.Slice):
            return slice(self.ev(sl.lower, env, mod, func, depth) if sl.lower is not None else None,
                         self.ev(sl.upper, env, mod, func, depth) if sl.upper is not None else None,
                         self.ev(sl.step, env, mod, func, depth) if sl.step is not None else None)
        if isinstance(sl, ast.Tuple):
            return tuple(self.index_value(x, env, mod, func, depth) for x in sl.elts)
        return self.ev(sl, env, mod, func, depth)

    def compare(self, op, a, b):
        if isinstance(op, (ast.Is, ast.IsNot)):
            if isinstance(a, PlainMember) or isinstance(b, PlainMember):
                same = a == b
            elif isinstance(a, Member) or isinstance(b, Member):
                same = isinstance(a, Member) and isinstance(b, Member) and a.enum == b.enum and a.mname == b.mname
            elif a is None or b is None or isinstance(a, bool) or isinstance(b, bool):
                same = a is b
            elif isinstance(a, (list, Obj)) or isinstance(b, (list, Obj)):
                same = a is b
            elif isinstance(a, Sym) and isinstance(b, Sym):
                same = a == b
            else:
                raise Unknown('identity comparison of plain values')
            return same if isinstance(op, ast.Is) else not same
        if isinstance(op, (ast.In, ast.NotIn)):
            if not isinstance(b, (list, tuple, dict, str, range)):
                raise Unknown('membership in a non container')
            r = a in b
            return r if isinstance(op, ast.In) else not r
        if isinstance(a, Sym) or isinstance(b, Sym):
            if isinstance(op, ast.Eq):
                return a == b
            if isinstance(op, ast.NotEq):
                return not (a == b)
            raise Unknown('ordering of opaque values')
        import operator
        ops = {ast.Eq: operator.eq, ast.NotEq: operator.ne, ast.Lt: operator.lt, ast.LtE: operator.le, ast.Gt: operator.gt, ast.GtE: operator.ge}
        try:
            return ops[type(op)](a, b)
        except TypeError:
            raise Raised('TypeError')

    def callexpr(self, e, env, mod, func, depth):
        fn = e.func
        args = [self.ev(a, env, mod, func, depth) for a in e.args if not isinstance(a, ast.Starred)]
        if any(isinstance(a, ast.Starred) for a in e.args):
            raise Unknown('star arguments')
        kwargs = {}
        for k in e.keywords:
            if k.arg is None:
                raise Unknown('** arguments')
            kwargs[k.arg] = self.ev(k.value, env, mod, func, depth)
        if isinstance(fn, ast.Name) and fn.id not in (env if not isinstance(env, ClassScope) else {}):
            n = fn.id
            if n == 'isinstance' and len(args) == 2:
                t = args[1]
                names = [x.name for x in (t if isinstance(t, tuple) else (t,)) if isinstance(x, Sym)]
                v = args[0]
                if isinstance(v, Sym) and '__isa__' in v.attrs:
                    return any(tn in v.attrs['__isa__'] for tn in names)
                if isinstance(v, Sym):
                    raise Unknown('isinstance of an opaque value')
                res = False
                for tn in names:
                    res |= (tn == 'builtin int' and isinstance(v, int) and not isinstance(v, bool)) or (tn == 'builtin str' and isinstance(v, str)) \
                        or (tn == 'builtin list' and isinstance(v, list)) or (tn == 'builtin bool' and isinstance(v, bool)) or (tn == 'builtin tuple' and isinstance(v, tuple))
                return res
            if n == 'slice' and 1 <= len(args) <= 3 and not kwargs:
                if any(isinstance(a, Sym) for a in args):
                    raise Unknown('slice of opaque bounds')
                return slice(*args)
            if n == 'len' and len(args) == 1:
                if isinstance(args[0], (list, tuple, str, dict, EnumClass, range)):
                    return len(args[0])
                raise Unknown('len of an opaque value')
            if n == 'range':
                return range(*args)
            if n == 'enumerate' and len(args) == 1 and isinstance(args[0], (list, tuple, range)):
                return [(i, x) for i, x in enumerate(args[0])]
            if n in ('int',) and len(args) == 1 and isinstance(args[0], (int, float)):
                return int(args[0])
            if n == 'list' and (not args or isinstance(args[0], (list, tuple, range))):
                return TList(args[0]) if args else TList()
            if n == 'tuple' and len(args) == 1 and isinstance(args[0], (list, tuple, range)):
                return tuple(args[0])
            if n in ('max', 'min') and args and all(isinstance(a, int) for a in args):
                return max(args) if n == 'max' else min(args)
            if n == 'sum' and len(args) >= 1 and isinstance(args[0], (list, tuple, range)) and all(isinstance(a, int) for a in args[0]):
                return sum(args[0], *args[1:])
            if n == 'abs' and len(args) == 1 and isinstance(args[0], int):
                return abs(args[0])
            if n == 'next' and len(args) in (1, 2) and isinstance(args[0], (list, tuple)):
                if args[0]:
                    return args[0][0]
                if len(args) == 2:
                    return args[1]
                raise Raised('StopIteration', e)
            if n == 'any' and len(args) == 1 and isinstance(args[0], (list, tuple)):
                return any(self.truth(x) for x in args[0])
            if n == 'all' and len(args) == 1 and isinstance(args[0], (list, tuple)):
                return all(self.truth(x) for x in args[0])
            if n == 'reversed' and len(args) == 1 and isinstance(args[0], (list, tuple, range)):
                return TList(reversed(args[0]))
            if n == 'zip' and args and all(isinstance(a, (list, tuple, range)) for a in args):
                return TList(tuple(t) for t in zip(*args))
            if n == 'sorted' and len(args) == 1 and isinstance(args[0], (list, tuple)) and all(isinstance(x, int) for x in args[0]):
                return TList(sorted(args[0]))
            if n == 'divmod' and len(args) == 2 and all(isinstance(a, int) for a in args) and args[1] != 0:
                return divmod(args[0], args[1])
            if n == 'bool' and len(args) == 1:
                return self.truth(args[0])
            if n == 'type':
                return Sym('type')
        if isinstance(fn, ast.Attribute):
            o = self.ev(fn.value, env, mod, func, depth)
            if isinstance(o, list):
                if getattr(o, 'origin', None) and fn.attr in ('append', 'extend', 'insert', 'pop', 'remove', 'clear', 'reverse', 'sort'):
                    self.template_writes.append((o.origin, e))
                if fn.attr == 'append' and len(args) == 1:
                    o.append(args[0])
                    return None
                if fn.attr == 'extend' and len(args) == 1:
                    o.extend(args[0])
                    return None
                if fn.attr == 'insert' and len(args) == 2:
                    o.insert(args[0], args[1])
                    return None
                if fn.attr == 'copy' and not args:
                    return TList(o)
                if fn.attr == 'pop':
                    return o.pop(*args)
                if fn.attr == 'index' and len(args) == 1:
                    return o.index(args[0])
                if fn.attr == 'reverse' and not args:
                    o.reverse()
                    return None
                if fn.attr == 'clear' and not args:
                    o.clear()
                    return None
                if fn.attr == 'count' and len(args) == 1:
                    return o.count(args[0])
                raise Unknown(f'list method {fn.attr}')
            if isinstance(o, dict):
                if fn.attr == 'get' and 1 <= len(args) <= 2 and not kwargs:
                    try:
                        return o.get(args[0], args[1] if len(args) == 2 else None)
                    except TypeError:
                        raise Unknown('dict key')
                if fn.attr in ('keys', 'values', 'items') and not args:
                    return TList(getattr(o, fn.attr)())
                raise Unknown(f'dict method {fn.attr}')
            if isinstance(o, tuple) and fn.attr in ('index', 'count') and len(args) == 1:
                try:
                    return getattr(o, fn.attr)(args[0])
                except ValueError:
                    raise Raised('ValueError', e)
            if isinstance(o, Obj) and o.cls is not None:
                m = self.prog.resolve_method(o.cls, fn.attr)
                if m is not None:
                    return self.call(m, args, kwargs, selfobj=o, depth=depth + 1)
                fv = o.attrs.get(fn.attr)          # a field holding a function of the repository (strategy records)
                if isinstance(fv, Sym) and getattr(fv, 'func', None) is not None:
                    if fv.func.key in getattr(self, 'opaque_funcs', ()):
                        return derived_call(fv.func.name, args, kwargs)
                    return self.call(fv.func, args, kwargs, depth=depth + 1)
            if isinstance(o, Sym) and getattr(o, 'module', None) is not None:
                v = self.module_value(o.module, fn.attr)
                if isinstance(v, Sym) and getattr(v, 'func', None) is not None:
                    if v.func.key in getattr(self, 'opaque_funcs', ()):
                        return derived_call(v.func.name, args, kwargs)
                    return self.call(v.func, args, kwargs, depth=depth + 1)
                if isinstance(v, EnumClass) and len(args) == 1:
                    for mem in v.members.values():
                        if int(mem) == int(args[0]):
                            return mem
                    raise Raised('ValueError', e)
                raise Unknown(f'call of `{norm(fn)[:40]}`')
            if isinstance(o, Sym):
                stub = getattr(self, 'ext_stubs', {}).get(f'{o.name}.{fn.attr}')
                if stub is not None:
                    return stub(args, kwargs)
                r = derived_call(f'{o.name}.{fn.attr}', args, kwargs)
                r.recv, r.method = o, fn.attr
                return r
            raise Unknown(f'method call `{norm(fn)[:40]}`')
        v = self.ev(fn, env, mod, func, depth)
        if isinstance(v, EnumClass) and len(args) == 1 and isinstance(args[0], int):
            for mem in v.members.values():
                if int(mem) == int(args[0]):
                    return mem
            raise Raised('ValueError', e)
        if isinstance(v, Sym) and getattr(v, 'cls', None) is not None and any(b.split('.')[-1] == 'NamedTuple' for b in v.cls.ext_bases) and not v.cls.bases:
            # a typing.NamedTuple record: fields are the annotated names of the class body, in order
            fields = [n.target.id for n in v.cls.node.body if isinstance(n, ast.AnnAssign) and isinstance(n.target, ast.Name)]
            defaults = {n.target.id: n.value for n in v.cls.node.body if isinstance(n, ast.AnnAssign) and isinstance(n.target, ast.Name) and n.value is not None}
            vals = dict(zip(fields, args))
            for k_, a_ in kwargs.items():
                if k_ not in fields or k_ in vals:
                    raise Raised('TypeError', e)
                vals[k_] = a_
            for fld in fields:
                if fld not in vals:
                    if fld not in defaults:
                        raise Raised('TypeError', e)
                    vals[fld] = self.ev(defaults[fld], {}, v.cls.mod, None, depth)
            if len(args) > len(fields):
                raise Raised('TypeError', e)
            return Obj(v.cls, **vals)
        if isinstance(v, Sym) and getattr(v, 'func', None) is not None:
            if v.func.key in getattr(self, 'opaque_funcs', ()):
                r = derived_call(v.func.name, args, kwargs)
                hook = getattr(self, 'opaque_attrs', {}).get(v.func.key)
                if hook is not None:
                    r.attrs = hook(args, kwargs)
                return r
            return self.call(v.func, args, kwargs, depth=depth + 1)
        if isinstance(v, tuple) and v and v[0] == 'bound':
            return self.call(v[1], args, kwargs, selfobj=v[2], depth=depth + 1)
        if isinstance(v, Sym):
            stub = getattr(self, 'ext_stubs', {}).get(v.name)
            if stub is not None:
                return stub(args, kwargs)
            return derived_call(v.name, args, kwargs)
        raise Unknown(f'call `{norm(fn)[:40]}`')


class _Return(Exception):
    def __init__(self, value):
        self.value = value


class _Break(Exception):
    pass


class _Continue(Exception):
    pass


_MISSING = object()


class ClassScope:
    """name lookup inside a class body: earlier class-level assignments first"""

    def __init__(self, interp, ci):
        self.interp, self.ci = interp, ci

    def get(self, name):
        if name in self.ci.class_assigns:
            return self.interp.class_value(self.ci, name)
        return _MISSING


def snapshot(v):
    if isinstance(v, list):
        return [snapshot(x) for x in v]
    if isinstance(v, tuple):
        return tuple(snapshot(x) for x in v)
    return v
