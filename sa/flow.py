"""E1 - syntax-directed control flow with exception edges: enumerate paths as ordered effect lists.

A *path* is (events, facts, outcome).  Events are small hashable tuples

    (kind, name, how, site)

produced in evaluation order; `site` indexes Flow.sites -> (Func, ast node) for reporting.  The rule
chooses which events it keeps (`keep`), which callees are inlined (`inline`), where an implicit exception
must be considered (`may_raise`) and may decide branch conditions from path facts.  Partial paths are
de-duplicated on their projected event tuple after every statement, so the cost is proportional to the
number of *distinct* effect orders, not to the number of syntactic paths.

kinds: store  (self attribute: how in bind|aug|sub|subaug|deep|del)
       lstore (local/param root: same hows; name is the root identifier)
       pstore (attribute of a non-self object: name 'obj.attr')
       call   (how: inline|opaque|local|super ; name = dotted/resolved text)
       raise  (name = exception type text, how = 'explicit'|'implicit'|'reraise')
       return / yield / cond
"""
import ast

from .model import norm, AnalysisError

NORMAL = ('normal',)
RETURN = ('return',)
BREAK = ('break',)
CONTINUE = ('continue',)

BUILTIN_EXC_PARENTS = {
    'BaseException': None, 'Exception': 'BaseException', 'KeyboardInterrupt': 'BaseException',
    'SystemExit': 'BaseException', 'GeneratorExit': 'BaseException',
    'ArithmeticError': 'Exception', 'ZeroDivisionError': 'ArithmeticError', 'AssertionError': 'Exception',
    'AttributeError': 'Exception', 'LookupError': 'Exception', 'IndexError': 'LookupError', 'KeyError': 'LookupError',
    'MemoryError': 'Exception', 'NameError': 'Exception', 'NotImplementedError': 'RuntimeError',
    'RuntimeError': 'Exception', 'OSError': 'Exception', 'StopIteration': 'Exception', 'TypeError': 'Exception',
    'ValueError': 'Exception', 'UserWarning': 'Exception', 'Warning': 'Exception',
}


class Path:
    __slots__ = ('events', 'facts', 'outcome')

    def __init__(self, events=(), facts=frozenset(), outcome=NORMAL):
        self.events = events
        self.facts = facts
        self.outcome = outcome

    def key(self):
        return (self.events, self.facts, self.outcome)

    def fact(self, name, default=None):
        for k, v in self.facts:
            if k == name:
                return v
        return default

    def with_fact(self, name, value):
        fs = frozenset((k, v) for k, v in self.facts if k != name)
        if value is not None:
            fs = fs | {(name, value)}
        return Path(self.events, fs, self.outcome)

    def add(self, ev):
        return Path(self.events + (ev,), self.facts, self.outcome)

    def out(self, outcome):
        return Path(self.events, self.facts, outcome)


def dedupe(paths):
    seen = {}
    for p in paths:
        seen.setdefault(p.key(), p)
    return list(seen.values())


class Flow:
    def __init__(self, prog, cls=None, keep=None, inline=None, may_raise=None, max_depth=8, unroll=2,
                 user_exc=None, max_paths=20000):
        self.prog = prog
        self.cls = cls
        self.keep = keep or (lambda ev, flow: True)
        self.inline = inline or (lambda callee, call, caller: True)
        self.may_raise = may_raise
        self.max_depth = max_depth
        self.unroll = unroll
        self.sites = []
        self._site_ix = {}
        self.stack = []
        self.max_paths = max_paths
        self.opaque_calls = set()
        self.inlined = set()
        # attributes whose presence is probed somewhere (hasattr(self, 'X') / bare `self.X` statement): only those get A: facts
        self.probed = set()
        for f in prog.funcs:
            for n in ast.walk(f.node):
                if isinstance(n, ast.Call) and norm(n.func) == 'hasattr' and len(n.args) == 2 \
                        and isinstance(n.args[1], ast.Constant):
                    self.probed.add(str(n.args[1].value))
                elif isinstance(n, ast.Expr) and isinstance(n.value, ast.Attribute) and norm(n.value.value) == 'self':
                    self.probed.add(n.value.attr)

    # ------------------------------------------------------------------ events
    def site(self, func, node):
        k = (func.key, id(node))
        if k not in self._site_ix:
            self._site_ix[k] = len(self.sites)
            self.sites.append((func, node))
        return self._site_ix[k]

    def ev(self, path, kind, name, how, func, node):
        e = (kind, name, how, self.site(func, node))
        if self.keep(e, self):
            return path.add(e)
        return path

    def where(self, ev):
        f, n = self.sites[ev[3]]
        return f.where(n)

    def text(self, ev):
        f, n = self.sites[ev[3]]
        return norm(n).split('\n')[0][:160]

    def func_of(self, ev):
        return self.sites[ev[3]][0]

    def node_of(self, ev):
        return self.sites[ev[3]][1]

    # ------------------------------------------------------------------ entry
    def run(self, func, facts=()):
        paths = self.call_body(func, [Path(facts=frozenset(facts))])
        return dedupe(paths)

    def call_body(self, func, paths, param_facts=None):
        """Run func's body on each path; outcome RETURN becomes NORMAL for the caller."""
        depth = len(self.stack)
        fkey = f'$frame{depth}'
        entered = []
        for p in paths:
            loc = frozenset((k, v) for k, v in p.facts if k.startswith('L:') or k.startswith('$caught') or k.startswith('$val:'))
            rest = frozenset((k, v) for k, v in p.facts if not (k.startswith('L:') or k.startswith('$caught') or k.startswith('$val:') or k == '$ret'))
            init = frozenset(('L:' + k, v) for k, v in (param_facts or {}).items())
            entered.append(Path(p.events, rest | {(fkey, loc)} | init, p.outcome))
        self.stack.append(func)
        try:
            out = []
            for p in self.block(func, func.node.body, entered):
                saved = p.fact(fkey) or frozenset()
                rest = frozenset((k, v) for k, v in p.facts
                                 if not (k.startswith('L:') or k.startswith('$caught') or k.startswith('$val:') or k == fkey))
                q = Path(p.events, rest | saved, p.outcome)
                if q.outcome in (RETURN, NORMAL):
                    out.append(q.out(NORMAL))
                elif q.outcome in (BREAK, CONTINUE):
                    raise AnalysisError(f'break/continue escaped {func.key}')
                else:
                    out.append(q)
            return dedupe(out)
        finally:
            self.stack.pop()

    # ------------------------------------------------------------------ blocks
    def block(self, func, stmts, paths):
        live = dedupe(paths)
        done = []
        for st in stmts:
            if not live:
                break
            nxt = []
            for p in live:
                for q in self.stmt(func, st, p):
                    if q.outcome == NORMAL and any(k.startswith('$val:') for k, v in q.facts):
                        q = Path(q.events, frozenset((k, v) for k, v in q.facts if not k.startswith('$val:')), q.outcome)
                    (nxt if q.outcome == NORMAL else done).append(q)
            live = dedupe(nxt)
            if len(live) + len(done) > self.max_paths:
                raise AnalysisError(f'path budget exceeded in {func.key}')
        return dedupe(live + done)

    # ------------------------------------------------------------------ statements
    def stmt(self, func, st, p):
        m = getattr(self, 'st_' + type(st).__name__, None)
        if m is None:
            raise AnalysisError(f'statement kind {type(st).__name__} not modelled ({func.where(st)})')
        return m(func, st, p)

    def st_Expr(self, func, st, p):
        if isinstance(st.value, ast.Constant):
            return [p]
        if isinstance(st.value, (ast.Yield, ast.YieldFrom)):
            out = self.expr(func, st.value.value, [p]) if st.value.value is not None else [p]
            return [self.ev(q, 'yield', '', '', func, st) if q.outcome == NORMAL else q for q in out]
        out = self.expr(func, st.value, [p])
        return self.implicit(func, st, out)

    def st_Pass(self, func, st, p):
        return [p]

    st_Global = st_Nonlocal = st_Import = st_ImportFrom = st_Pass

    def st_FunctionDef(self, func, st, p):
        return [self.set_local(p, st.name, ('def', st.name))]

    def st_ClassDef(self, func, st, p):
        return [p]

    def st_Delete(self, func, st, p):
        for t in st.targets:
            p = self.store(func, t, st, p, 'del')
        return [p]

    def st_Assert(self, func, st, p):
        out = self.expr(func, st.test, [p])
        res = []
        for q in out:
            if q.outcome != NORMAL:
                res.append(q)
                continue
            res.append(q)
            r = self.ev(q, 'raise', 'AssertionError', 'implicit', func, st)
            res.append(r.out(('raise', 'AssertionError')))
        return self.implicit(func, st, res)

    def st_Assign(self, func, st, p):
        out = self.expr(func, st.value, [p])
        out = self.implicit(func, st, out)
        res = []
        for q in out:
            if q.outcome != NORMAL:
                res.append(q)
                continue
            for t in st.targets:
                q = self.bind_fact(func, t, st.value, q)
            qs = [q]
            for t in st.targets:
                qs = [x for r in qs for x in self.store_paths(func, t, st, r, 'bind')]
            res.extend(qs)
        return res

    def st_AnnAssign(self, func, st, p):
        if st.value is None:
            return [p]
        out = self.expr(func, st.value, [p])
        res = []
        for q in out:
            if q.outcome != NORMAL:
                res.append(q)
            else:
                res.extend(self.store_paths(func, st.target, st, self.bind_fact(func, st.target, st.value, q), 'bind'))
        return res

    def st_AugAssign(self, func, st, p):
        out = self.expr(func, st.value, [p])
        out = self.implicit(func, st, out)
        res = []
        for q in out:
            if q.outcome != NORMAL:
                res.append(q)
            else:
                if isinstance(st.target, ast.Name):
                    q = q.with_fact('L:' + st.target.id, None)
                res.extend(self.store_paths(func, st.target, st, q, 'aug'))
        return res

    def st_Return(self, func, st, p):
        out = self.expr(func, st.value, [p]) if st.value is not None else [p]
        res = []
        for q in out:
            if q.outcome != NORMAL:
                res.append(q)
            else:
                rv = self.value_fact(st.value, q) if st.value is not None else 'None'
                q = q.with_fact('$ret', rv)
                res.append(self.ev(q, 'return', '', '', func, st).out(RETURN))
        return res

    def st_Raise(self, func, st, p):
        if st.exc is None:
            typ = p.fact('$caught') or 'Exception'
            q = self.ev(p, 'raise', typ, 'reraise', func, st)
            return [q.out(('raise', typ))]
        exc = st.exc
        out = self.expr(func, exc, [p])
        res = []
        for q in out:
            if q.outcome != NORMAL:
                res.append(q)
                continue
            if isinstance(exc, ast.Call):
                typ = self.exc_name(func, exc.func)
                how = 'explicit'
            elif isinstance(exc, ast.Name) and q.fact('$caughtvar') == exc.id:
                typ = q.fact('$caught') or 'Exception'
                how = 'reraise'
            elif isinstance(exc, ast.Name):
                typ = self.exc_name(func, exc)
                how = 'explicit'
            else:
                typ = 'Exception'   # e.g. raise self._exception : a stored exception object
                how = 'explicit'
            q = self.ev(q, 'raise', typ, how, func, st)
            res.append(q.out(('raise', typ)))
        return res

    def st_Break(self, func, st, p):
        return [p.out(BREAK)]

    def st_Continue(self, func, st, p):
        return [p.out(CONTINUE)]

    def st_If(self, func, st, p):
        out = self.expr(func, st.test, [p])
        res = []
        for q in out:
            if q.outcome != NORMAL:
                res.append(q)
                continue
            v = self.cond(func, st.test, q)
            if v is not False:
                res.extend(self.block(func, st.body, [self.assume(func, st.test, q, True)]))
            if v is not True:
                res.extend(self.block(func, st.orelse, [self.assume(func, st.test, q, False)]))
        return dedupe(res)

    def st_With(self, func, st, p):
        paths = [p]
        for item in st.items:
            paths = self.expr(func, item.context_expr, paths)
        live = [q for q in paths if q.outcome == NORMAL]
        done = [q for q in paths if q.outcome != NORMAL]
        return dedupe(done + self.block(func, st.body, live))

    def loop(self, func, st, head_paths, target=None):
        """bounded unrolling: 0..unroll iterations; break/continue handled; else-clause on normal exhaustion."""
        exits = []
        cur = head_paths
        for it in range(self.unroll + 1):
            # exit before iteration `it`
            exits.extend(self.block(func, st.orelse, list(cur)) if st.orelse else list(cur))
            if it == self.unroll:
                break
            body_in = cur
            if target is not None:
                body_in = [self.store(func, target, st, q, 'bind') for q in cur]
            after = self.block(func, st.body, body_in)
            nxt = []
            for q in after:
                if q.outcome == BREAK:
                    exits.append(q.out(NORMAL))
                elif q.outcome in (CONTINUE, NORMAL):
                    nxt.append(q.out(NORMAL))
                else:
                    exits.append(q)
            nxt = dedupe(nxt)
            # fixpoint: nothing new after one more iteration
            if {x.key() for x in nxt} <= {x.key() for x in cur}:
                exits.extend(self.block(func, st.orelse, list(nxt)) if st.orelse else list(nxt))
                break
            cur = nxt
        return dedupe(exits)

    def st_For(self, func, st, p):
        out = self.expr(func, st.iter, [p])
        live = [q for q in out if q.outcome == NORMAL]
        done = [q for q in out if q.outcome != NORMAL]
        return dedupe(done + self.loop(func, st, live, target=st.target))

    def st_While(self, func, st, p):
        out = self.expr(func, st.test, [p])
        live = [q for q in out if q.outcome == NORMAL]
        done = [q for q in out if q.outcome != NORMAL]
        return dedupe(done + self.loop(func, st, live))

    def st_Try(self, func, st, p):
        body = self.block(func, st.body, [p])
        res = []
        for q in body:
            if q.outcome[0] == 'raise':
                typ = q.outcome[1]
                handled = False
                for h in st.handlers:
                    if self.catches(func, h, typ):
                        hq = q.out(NORMAL).with_fact('$caught', typ)
                        if h.name:
                            hq = hq.with_fact('$caughtvar', h.name)
                        for r in self.block(func, h.body, [hq]):
                            res.append(r.with_fact('$caught', None).with_fact('$caughtvar', None)
                                       if r.outcome[0] != 'raise' else r)
                        handled = True
                        break
                if not handled:
                    res.append(q)
            elif q.outcome == NORMAL and st.orelse:
                res.extend(self.block(func, st.orelse, [q]))
            else:
                res.append(q)
        if st.finalbody:
            fin = []
            for q in res:
                pending = q.outcome
                for r in self.block(func, st.finalbody, [q.out(NORMAL)]):
                    fin.append(r.out(pending) if r.outcome == NORMAL else r)
            res = fin
        return dedupe(res)

    # ------------------------------------------------------------------ exceptions
    def exc_name(self, func, e):
        r = self.prog.resolve(func.mod, e) if isinstance(e, (ast.Name, ast.Attribute)) else None
        if r and r[0] == 'class':
            return r[1].name
        return norm(e).split('.')[-1]

    def exc_parents(self, func, typ):
        """chain of ancestor names of exception type `typ` (by name)."""
        chain = [typ]
        cur = typ
        for _ in range(12):
            if cur in BUILTIN_EXC_PARENTS:
                cur = BUILTIN_EXC_PARENTS[cur]
            else:
                ci = next((c for c in self.prog.classes.values() if c.name == cur), None)
                if ci is None:
                    cur = 'Exception'
                else:
                    bs = [b.name for b in ci.bases] + [x.split('.')[-1] for x in ci.ext_bases]
                    cur = bs[0] if bs else 'Exception'
            if cur is None:
                break
            chain.append(cur)
        return chain

    def catches(self, func, handler, typ):
        if handler.type is None:
            return True
        types = handler.type.elts if isinstance(handler.type, ast.Tuple) else [handler.type]
        names = {self.exc_name(func, t) for t in types}
        return bool(names & set(self.exc_parents(func, typ)))

    def implicit(self, func, st, paths):
        """Fork implicit-exception paths where the rule (or a recognised idiom) says one must be considered.

        Built-in idiom: a bare attribute read `self.X` as a statement is the repo's "is X set yet" probe; it forks into
        X present (fact A:X True) and AttributeError (fact A:X False) unless the path already knows."""
        res = []
        for q in paths:
            if q.outcome != NORMAL:
                res.append(q)
                continue
            attr = None
            if isinstance(st, ast.Expr) and isinstance(st.value, ast.Attribute) and isinstance(st.value.value, ast.Name) \
                    and st.value.value.id == 'self':
                attr = st.value.attr
            if attr is not None:
                known = q.fact('A:' + attr)
                if known is not False:
                    res.append(q.with_fact('A:' + attr, True))
                if known is not True:
                    r = self.ev(q.with_fact('A:' + attr, False), 'raise', 'AttributeError', 'implicit', func, st)
                    res.append(r.out(('raise', 'AttributeError')))
                continue
            res.append(q)
            if self.may_raise is None:
                continue
            for typ in self.may_raise(func, st, q, self) or ():
                r = self.ev(q, 'raise', typ, 'implicit', func, st)
                res.append(r.out(('raise', typ)))
        return res

    # ------------------------------------------------------------------ facts and conditions
    def set_local(self, p, name, value):
        return p.with_fact('L:' + name, value)

    def value_fact(self, e, p):
        """'None' / 'NotNone' / None(unknown) for the value of expression e on path p"""
        if isinstance(e, ast.Constant):
            return 'None' if e.value is None else 'NotNone'
        if isinstance(e, ast.Name):
            v = p.fact('L:' + e.id)
            return v if v in ('None', 'NotNone') else None
        if isinstance(e, ast.Call):
            return p.fact(f'$val:{id(e)}')
        return None

    def bind_fact(self, func, target, value, p):
        """remember simple facts about locals: None / not-None / bool constants / hasattr results."""
        if not isinstance(target, ast.Name):
            return p
        v = None
        if isinstance(value, ast.Call) and p.fact(f'$val:{id(value)}') is not None:
            return p.with_fact('L:' + target.id, p.fact(f'$val:{id(value)}'))
        if isinstance(value, ast.Name) and p.fact('L:' + value.id) in ('None', 'NotNone'):
            return p.with_fact('L:' + target.id, p.fact('L:' + value.id))
        if isinstance(value, ast.Constant):
            if value.value is None:
                v = 'None'
            elif value.value is True or value.value is False:
                v = value.value
        else:
            t = self.cond(func, value, p)
            if t is True or t is False:
                if self.is_bool_expr(value):
                    v = t
        return p.with_fact('L:' + target.id, v)

    @staticmethod
    def is_bool_expr(e):
        if isinstance(e, ast.UnaryOp) and isinstance(e.op, ast.Not):
            return True
        if isinstance(e, ast.Compare):
            return True
        if isinstance(e, ast.Call) and norm(e.func) in ('hasattr', 'isinstance', 'callable'):
            return True
        if isinstance(e, ast.BoolOp):
            return all(Flow.is_bool_expr(v) for v in e.values)
        return False

    def cond(self, func, test, p):
        """True / False / None(unknown) for a branch condition under the path's facts."""
        if isinstance(test, ast.Constant):
            return bool(test.value)
        if isinstance(test, ast.UnaryOp) and isinstance(test.op, ast.Not):
            v = self.cond(func, test.operand, p)
            return None if v is None else (not v)
        if isinstance(test, ast.BoolOp):
            vals = [self.cond(func, v, p) for v in test.values]
            if isinstance(test.op, ast.And):
                if any(v is False for v in vals):
                    return False
                return True if all(v is True for v in vals) else None
            if any(v is True for v in vals):
                return True
            return False if all(v is False for v in vals) else None
        if isinstance(test, ast.Name):
            v = p.fact('L:' + test.id)
            if v is True or v is False:
                return v
            if v == 'None':
                return False
            return None
        if isinstance(test, ast.Call) and norm(test.func) == 'hasattr' and len(test.args) == 2 \
                and norm(test.args[0]) == 'self' and isinstance(test.args[1], ast.Constant):
            return p.fact('A:' + str(test.args[1].value))
        if isinstance(test, ast.Compare) and len(test.ops) == 1:
            op = test.ops[0]
            left, right = test.left, test.comparators[0]
            if isinstance(op, (ast.Is, ast.IsNot)) and isinstance(right, ast.Constant) and right.value is None:
                v = None
                if isinstance(left, ast.Name):
                    v = p.fact('L:' + left.id)
                elif norm(left).startswith('self.'):
                    v = p.fact('N:' + norm(left))
                if v in ('None', 'NotNone'):
                    isnone = v == 'None'
                    return isnone if isinstance(op, ast.Is) else (not isnone)
        return None

    def assume(self, func, test, p, value):
        """record the fact learnt by taking a branch."""
        if isinstance(test, ast.UnaryOp) and isinstance(test.op, ast.Not):
            return self.assume(func, test.operand, p, not value)
        if isinstance(test, ast.Call) and norm(test.func) == 'hasattr' and len(test.args) == 2 \
                and norm(test.args[0]) == 'self' and isinstance(test.args[1], ast.Constant):
            return p.with_fact('A:' + str(test.args[1].value), value)
        if isinstance(test, ast.Name):
            cur = p.fact('L:' + test.id)
            if cur is None and value is False:
                return p
            return p
        if isinstance(test, ast.Compare) and len(test.ops) == 1:
            op = test.ops[0]
            left, right = test.left, test.comparators[0]
            if isinstance(op, (ast.Is, ast.IsNot)) and isinstance(right, ast.Constant) and right.value is None:
                isnone = value if isinstance(op, ast.Is) else (not value)
                if isinstance(left, ast.Name):
                    return p.with_fact('L:' + left.id, 'None' if isnone else 'NotNone')
                if norm(left).startswith('self.'):
                    return p.with_fact('N:' + norm(left), 'None' if isnone else 'NotNone')
        return p

    # ------------------------------------------------------------------ stores
    def store_paths(self, func, target, st, p, how):
        """like store() but a property setter may fork paths (it is a call)."""
        if isinstance(target, (ast.Tuple, ast.List)):
            ps = [p]
            for e in target.elts:
                ps = [x for q in ps for x in self.store_paths(func, e, st, q, how)]
            return ps
        if isinstance(target, ast.Attribute) and isinstance(target.value, ast.Name) and target.value.id == 'self' \
                and self.cls is not None and how in ('bind', 'aug'):
            setter = self.prog.resolve_setter(self.cls, target.attr)
            if setter is not None and self.can_inline(setter):
                q = self.ev(p.with_fact('N:self.' + target.attr, None), 'call', f'setter:{target.attr}', 'inline', func, st)
                self.inlined.add(setter.key)
                return self.call_body(setter, [q])
        return [self.store(func, target, st, p, how)]

    def store(self, func, target, st, p, how):
        if isinstance(target, (ast.Tuple, ast.List)):
            for e in target.elts:
                p = self.store(func, e, st, p, how)
            return p
        if isinstance(target, ast.Starred):
            return self.store(func, target.value, st, p, how)
        if isinstance(target, ast.Name):
            if how in ('bind', 'del'):
                return self.ev(p, 'lstore', target.id, how, func, st)
            return self.ev(p, 'lstore', target.id, how, func, st)
        # peel subscripts / attributes
        depth_sub = 0
        node = target
        chain = []
        while isinstance(node, (ast.Subscript, ast.Attribute)):
            chain.append(node)
            node = node.value
        if not isinstance(node, ast.Name):
            return self.ev(p, 'lstore', norm(node), 'deep', func, st)
        rootname = node.id
        chain.reverse()           # from root outwards
        if rootname == 'self' and chain and isinstance(chain[0], ast.Attribute):
            attr = chain[0].attr
            rest = chain[1:]
            if not rest:
                h = how
            elif all(isinstance(c, ast.Subscript) for c in rest):
                h = {'bind': 'sub', 'aug': 'subaug', 'del': 'sub'}[how]
            else:
                h = 'deep'
            p = self.ev(p, 'store', attr, h, func, st)
            if h != 'del' and p.fact('N:self.' + attr) is not None and not rest:
                p = p.with_fact('N:self.' + attr, None)
            if not rest and how == 'bind' and attr in self.probed:
                p = p.with_fact('A:' + attr, True)
            return p
        if chain and isinstance(chain[-1], ast.Attribute) and len(chain) == 1:
            return self.ev(p, 'pstore', f'{rootname}.{chain[0].attr}', how, func, st)
        if all(isinstance(c, ast.Subscript) for c in chain):
            h = {'bind': 'sub', 'aug': 'subaug', 'del': 'sub'}[how]
            return self.ev(p, 'lstore', rootname, h, func, st)
        return self.ev(p, 'lstore', rootname, 'deep', func, st)

    # ------------------------------------------------------------------ expressions (calls in evaluation order)
    def can_inline(self, callee):
        return callee not in self.stack and len(self.stack) < self.max_depth

    def expr(self, func, e, paths):
        if e is None:
            return paths
        for call in self.calls_in_order(e):
            nxt = []
            for p in paths:
                if p.outcome != NORMAL:
                    nxt.append(p)
                else:
                    nxt.extend(self.call(func, call, p))
            paths = dedupe(nxt)
        return paths

    @staticmethod
    def calls_in_order(e):
        """Call nodes of expression e in evaluation order (arguments before the call); lambdas/comprehension bodies
        are included (conservative), nested function definitions are not expressions."""
        out = []

        def visit(n):
            if isinstance(n, ast.Lambda):
                return
            if isinstance(n, ast.Call):
                visit(n.func)
                for a in n.args:
                    visit(a)
                for k in n.keywords:
                    visit(k.value)
                out.append(n)
                return
            for c in ast.iter_child_nodes(n):
                visit(c)
        visit(e)
        return out

    def resolve_call(self, func, call):
        """-> (callee Func or None, display name, how)"""
        f = call.func
        if isinstance(f, ast.Attribute):
            v = f.value
            if isinstance(v, ast.Name) and v.id == 'self' and self.cls is not None:
                callee = self.prog.resolve_method(self.cls, f.attr)
                if callee is not None:
                    return callee, 'self.' + f.attr, 'self'
                return None, 'self.' + f.attr, 'opaque'
            if isinstance(v, ast.Call) and isinstance(v.func, ast.Name) and v.func.id == 'super' and func.cls is not None \
                    and self.cls is not None:
                callee = self.prog.resolve_method(self.cls, f.attr, after=func.cls)
                if callee is not None:
                    return callee, 'super().' + f.attr, 'super'
                return None, 'super().' + f.attr, 'opaque'
            r = self.prog.resolve(func.mod, f)
            if r and r[0] == 'func':
                return r[1], r[1].mod.name + '.' + r[1].qualname, 'func'
            if r and r[0] == 'class':
                return None, r[1].mod.name + '.' + r[1].name, 'class'
            if r and r[0] == 'ext':
                return None, r[1], 'ext'
            return None, norm(f), 'opaque'
        if isinstance(f, ast.Name):
            if f.id in func.params or any(f.id in (x.params if x else ()) for x in self._parents(func)):
                return None, f.id, 'local'
            r = self.prog.resolve(func.mod, f)
            if r and r[0] == 'func':
                return r[1], r[1].mod.name + '.' + r[1].qualname, 'func'
            if r and r[0] == 'class':
                return None, r[1].mod.name + '.' + r[1].name, 'class'
            if r and r[0] == 'ext':
                return None, r[1], 'ext'
            return None, f.id, 'builtin' if r is None else 'opaque'
        return None, norm(f), 'opaque'

    @staticmethod
    def _parents(func):
        out = []
        while func is not None:
            out.append(func.parent)
            func = func.parent
        return out

    def call(self, func, call, p):
        callee, name, how = self.resolve_call(func, call)
        if callee is not None and self.prog.numba_kind(callee)[0] is None and not self.prog.is_abstract(callee) \
                and self.can_inline(callee) and self.inline(callee, call, func):
            q = self.ev(p, 'call', name, 'inline', func, call)
            self.inlined.add(callee.key)
            # facts about the arguments travel into the callee's parameters, the returned value's fact travels back
            params = list(callee.params)
            if params and params[0] in ('self', 'cls') and callee.cls is not None \
                    and not any(norm(d) == 'staticmethod' for d in callee.node.decorator_list):
                params = params[1:]
            pf = {}
            for i, a in enumerate(call.args):
                if i < len(params):
                    pf[params[i]] = self.value_fact(a, p)
            for k in call.keywords:
                if k.arg:
                    pf[k.arg] = self.value_fact(k.value, p)
            out = self.call_body(callee, [q], param_facts={k: v for k, v in pf.items() if v})
            res = []
            for r in out:
                rv = r.fact('$ret')
                r = r.with_fact('$ret', None)
                if rv and r.outcome == NORMAL:
                    r = r.with_fact(f'$val:{id(call)}', rv)
                res.append(r)
            return res
        self.opaque_calls.add(name)
        q = self.ev(p, 'call', name, 'opaque' if callee is None else 'known', func, call)
        res = [q]
        if self.may_raise is not None:
            for typ in self.may_raise(func, call, q, self) or ():
                r = self.ev(q, 'raise', typ, 'implicit', func, call)
                res.append(r.out(('raise', typ)))
        return res
