"""E2 - alias / freshness (ownership) classification of numpy values.

value classes:  FRESH            allocated/computed in this call (a write to it cannot reach caller or instance state)
                ALIAS({roots})   may share memory with the roots: 'self.attr' or 'param:name'
                UNKNOWN
The classification is syntactic over the numpy subset the repository uses; anything unrecognised is UNKNOWN.
"""
import ast

from .model import norm

FRESH = ('fresh',)
UNKNOWN = ('unknown',)


def alias(roots):
    return ('alias', frozenset(roots))


def join(a, b):
    if a is None:
        return b
    if b is None:
        return a
    if a == UNKNOWN or b == UNKNOWN:
        return UNKNOWN
    if a == FRESH and b == FRESH:
        return FRESH
    ra = a[1] if a[0] == 'alias' else frozenset()
    rb = b[1] if b[0] == 'alias' else frozenset()
    return alias(ra | rb)


# numpy functions returning new arrays (never a view of an argument)
NP_FRESH = {
    'zeros', 'empty', 'ones', 'full', 'zeros_like', 'empty_like', 'ones_like', 'array', 'copy', 'arange', 'linspace',
    'sum', 'nansum', 'mean', 'nanmean', 'std', 'nanstd', 'var', 'max', 'min', 'nanmax', 'nanmin', 'dot', 'matmul', 'outer',
    'sqrt', 'abs', 'absolute', 'log', 'exp', 'square', 'power', 'isinf', 'isnan', 'where', 'any', 'all', 'count_nonzero',
    'bitwise_xor', 'bitwise_and', 'bitwise_or', 'hstack', 'vstack', 'concatenate', 'stack', 'append', 'roll', 'tile', 'take',
    'diff', 'cumsum', 'unpackbits', 'packbits', 'real', 'imag', 'conjugate', 'argmin', 'argmax', 'ceil', 'floor', 'round',
    'nonzero', 'searchsorted', 'argsort', 'sort', 'unique', 'r_', 'pinv', 'inv', 'fft', 'rfft', 'irfft', 'ifft', 'correlate',
    'convolve', 'array_equal', 'result_type', 'dtype', 'iinfo', 'finfo', 'percentile', 'median', 'frombuffer', 'random',
    'choice', 'randint', 'negative', 'add', 'subtract', 'multiply', 'divide', 'true_divide', 'left_shift', 'right_shift',
}
# real/imag are views for complex input in numpy, but the repo only reads them; keep them fresh-for-reading
# functions/methods returning views or possibly the same object
NP_VIEW_FUNCS = {'swapaxes', 'reshape', 'squeeze', 'asarray', 'ascontiguousarray', 'flip', 'transpose', 'moveaxis',
                 'atleast_1d', 'atleast_2d', 'ravel', 'expand_dims', 'broadcast_to', 'asanyarray', 'rollaxis'}
VIEW_METHODS = {'swapaxes', 'reshape', 'squeeze', 'transpose', 'view', 'ravel', 'diagonal'}
FRESH_METHODS = {'copy', 'sum', 'mean', 'std', 'var', 'max', 'min', 'any', 'all', 'dot', 'flatten', 'tolist', 'nonzero',
                 'argmax', 'argmin', 'cumsum', 'round', 'clip', 'conj', 'conjugate', 'tobytes', 'item', 'repeat', 'take',
                 'argsort', 'prod', 'byteswap_copy', 'keys', 'values', 'items', 'format', 'split', 'join', 'get_reader'}


class Classifier:
    def __init__(self, prog, func, env=None, summaries=None, cls=None):
        self.prog = prog
        self.func = func
        self.env = env or {}          # local name -> class
        self.summaries = summaries    # callable(Func) -> returns-class with roots as 'param:<name>'
        self.cls = cls
        self.assigned = set()         # locals assigned somewhere in the function (bottom until classified)
        self.kinds = self.env.get('$kinds', {})   # local name -> 'int' | 'array' (what indexing with it does)

    def index_kind(self, e):
        """'int' (basic indexing), 'array' (advanced indexing: copies) or None (unknown)."""
        if isinstance(e, ast.Constant):
            return 'int' if isinstance(e.value, int) or e.value is None or e.value is Ellipsis else None
        if isinstance(e, ast.Slice):
            return 'int'
        if isinstance(e, ast.UnaryOp):
            if isinstance(e.op, ast.Invert):
                return 'array' if self.index_kind(e.operand) == 'array' else None
            return self.index_kind(e.operand)
        if isinstance(e, (ast.Compare, ast.List, ast.ListComp)):
            return 'array'
        if isinstance(e, ast.Name):
            if self.env.get(e.id) == ('int',):
                return 'int'
            return self.kinds.get(e.id)
        if isinstance(e, ast.BinOp):
            l, r = self.index_kind(e.left), self.index_kind(e.right)
            if 'array' in (l, r):
                return 'array'
            if l == 'int' and r == 'int':
                return 'int'
            return None
        if isinstance(e, ast.Call):
            n = norm(e.func)
            if n in ('len', 'int'):
                return 'int'
            d = self.prog.dotted(self.func.mod, e.func) if isinstance(e.func, (ast.Name, ast.Attribute)) else None
            if d and d.startswith('numpy.') and d.split('.')[-1] in ('where', 'nonzero', 'arange', 'array', 'argsort',
                                                                     'isinf', 'isnan', 'logical_and', 'logical_or',
                                                                     'logical_not', 'bitwise_and', 'flatnonzero'):
                return 'array'
            return None
        if isinstance(e, ast.Subscript):
            if isinstance(e.value, ast.Attribute) and e.value.attr == 'shape':
                return 'int'
            return None
        return None

    def basic_index(self, sl):
        """True if the subscript is basic indexing (ints, slices, None, Ellipsis only) => view."""
        elts = sl.elts if isinstance(sl, ast.Tuple) else [sl]
        kinds = [self.index_kind(e) for e in elts]
        if 'array' in kinds:
            return False          # any advanced index => the result is a copy
        if all(k == 'int' for k in kinds):
            return True
        return None

    def classify(self, e):
        if e is None:
            return UNKNOWN
        if isinstance(e, ast.Constant):
            return FRESH
        if isinstance(e, (ast.BinOp, ast.UnaryOp, ast.Compare, ast.BoolOp, ast.JoinedStr, ast.Dict, ast.Set,
                          ast.ListComp, ast.DictComp, ast.SetComp, ast.GeneratorExp)):
            return FRESH
        if isinstance(e, (ast.List, ast.Tuple)):
            c = FRESH
            for x in e.elts:
                c = join(c, self.classify(x))
            return c
        if isinstance(e, ast.IfExp):
            return join(self.classify(e.body), self.classify(e.orelse))
        if isinstance(e, ast.Name):
            if e.id in self.env:
                c = self.env[e.id]
                return FRESH if c == ('int',) else c
            if e.id in self.assigned:
                return None           # bottom: not classified yet in this fixpoint round
            if e.id in self.func.params:
                return alias({'param:' + e.id})
            par = self.func.parent
            while par is not None:
                if e.id in par.params:
                    return alias({'outer:' + e.id})
                par = par.parent
            r = self.prog.lookup(self.func.mod, e.id)
            if r is not None and r[0] == 'value':
                return alias({'global:' + r[1].name + '.' + e.id})
            if r is not None and r[0] in ('func', 'class', 'mod', 'ext'):
                return FRESH
            return UNKNOWN
        if isinstance(e, ast.Attribute):
            if isinstance(e.value, ast.Name) and e.value.id == 'self':
                if self.cls is not None and self.prog.resolve_getter(self.cls, e.attr) is not None:
                    return alias({'self.' + e.attr, 'self._' + e.attr})
                return alias({'self.' + e.attr})
            if e.attr == 'T':
                return self.classify(e.value)
            if e.attr in ('shape', 'dtype', 'ndim', 'size', 'itemsize', 'kind', 'type', 'value', 'name'):
                return FRESH
            if e.attr in ('real', 'imag', 'flat', 'samples', 'metadatas'):
                return self.classify(e.value)
            base = self.classify(e.value)
            if base is None:
                return None
            return base if base != FRESH else UNKNOWN
        if isinstance(e, ast.Subscript):
            base = self.classify(e.value)
            if base is None:
                return None
            if base == FRESH:
                return FRESH
            b = self.basic_index(e.slice)
            if b is False:
                return FRESH           # fancy / boolean indexing copies
            if b is True:
                return base
            return base if base == UNKNOWN else join(base, base)   # may be a view: keep the alias (conservative)
        if isinstance(e, ast.Starred):
            return self.classify(e.value)
        if isinstance(e, ast.Call):
            return self.call(e)
        return UNKNOWN

    def call(self, e):
        f = e.func
        d = self.prog.dotted(self.func.mod, f) if isinstance(f, (ast.Name, ast.Attribute)) else None
        if d and (d.startswith('numpy.') or d.startswith('scipy.')):
            last = d.split('.')[-1]
            if last in NP_VIEW_FUNCS:
                if last in ('asarray', 'ascontiguousarray', 'asanyarray') or e.args:
                    return self.classify(e.args[0]) if e.args else UNKNOWN
            if last in NP_FRESH:
                if last == 'array':
                    for k in e.keywords:
                        if k.arg == 'copy' and isinstance(k.value, ast.Constant) and k.value.value is False:
                            return self.classify(e.args[0]) if e.args else UNKNOWN
                return FRESH
            return UNKNOWN
        if isinstance(f, ast.Name) and f.id == 'getattr' and len(e.args) in (2, 3) and isinstance(e.args[0], ast.Name) and e.args[0].id == 'self' \
                and isinstance(e.args[1], ast.Constant) and isinstance(e.args[1].value, str) and not e.keywords:
            # getattr(self, 'name'[, default]) reads self.name (or gives the default)
            out = self.classify(ast.copy_location(ast.Attribute(value=e.args[0], attr=e.args[1].value, ctx=ast.Load()), e))
            if len(e.args) == 3:
                d_ = self.classify(e.args[2])
                out = join(out, d_) if d_ is not None else out
            return out
        if isinstance(f, ast.Name) and f.id in ('len', 'int', 'float', 'range', 'sum', 'max', 'min', 'abs', 'list', 'tuple',
                                                'dict', 'set', 'str', 'bool', 'enumerate', 'zip', 'sorted', 'isinstance',
                                                'type', 'round', 'any', 'all', 'callable', 'hasattr', 'divmod', 'repr'):
            return FRESH
        if isinstance(f, ast.Attribute):
            m = f.attr
            recv = self.classify(f.value)
            if m == 'astype':
                for k in e.keywords:
                    if k.arg == 'copy' and not (isinstance(k.value, ast.Constant) and k.value.value is True):
                        return recv
                return FRESH
            if m in VIEW_METHODS:
                return recv
            if m in FRESH_METHODS:
                return FRESH
        # resolved repository function: use its return summary
        callee = self.resolve(e)
        if callee is not None and self.summaries is not None:
            ret = self.summaries(callee)
            return self.instantiate(ret, callee, e)
        if isinstance(f, ast.Name) and (f.id in self.env or f.id in self.assigned or f.id in self.func.params):
            # a locally bound callable (an operation taken from a list): it returns new storage or one of its arguments
            out = FRESH
            for a in list(e.args) + [k.value for k in e.keywords]:
                out = join(out, self.classify(a))
            return out
        return UNKNOWN

    def resolve(self, e):
        f = e.func
        if isinstance(f, ast.Attribute) and isinstance(f.value, ast.Name) and f.value.id == 'self' and self.cls is not None:
            return self.prog.resolve_method(self.cls, f.attr)
        if isinstance(f, ast.Attribute) and isinstance(f.value, ast.Call) and norm(f.value.func) == 'super' \
                and self.cls is not None and self.func.cls is not None:
            return self.prog.resolve_method(self.cls, f.attr, after=self.func.cls)
        r = self.prog.resolve(self.func.mod, f) if isinstance(f, (ast.Name, ast.Attribute)) else None
        if r and r[0] == 'func':
            return r[1]
        return None

    def instantiate(self, ret, callee, call):
        """map a callee summary (roots 'param:x' / 'self.a') to the caller's expressions."""
        if ret in (FRESH, UNKNOWN) or ret is None:
            return ret or UNKNOWN
        params = list(callee.params)
        if params and params[0] in ('self', 'cls') and callee.cls is not None \
                and not any(norm(d) == 'staticmethod' for d in callee.node.decorator_list):
            params = params[1:]
        amap = {}
        for i, a in enumerate(call.args):
            if i < len(params):
                amap[params[i]] = a
        for k in call.keywords:
            if k.arg:
                amap[k.arg] = k.value
        out = FRESH
        for r in ret[1]:
            if r.startswith('param:'):
                a = amap.get(r[6:])
                if a is None:
                    continue      # default value: not an alias of anything the caller holds
                out = join(out, self.classify(a))
            else:
                out = join(out, alias({r}))
        return out


class Summaries:
    """returns-class of repository functions (flow-insensitive, recursion cut at depth)."""

    def __init__(self, prog, cls=None):
        self.prog = prog
        self.cls = cls
        self.cache = {}
        self.active = set()

    def __call__(self, f):
        if f.key in self.cache:
            return self.cache[f.key]
        if f.key in self.active:
            return UNKNOWN
        self.active.add(f.key)
        try:
            env = local_env(self.prog, f, self, self.cls)
            c = Classifier(self.prog, f, env, self, self.cls)
            ret = None
            for n in walk_no_nested(f.node):
                if isinstance(n, ast.Return):
                    ret = join(ret, c.classify(n.value) if n.value is not None else FRESH)
            if ret is None:
                ret = FRESH
        finally:
            self.active.discard(f.key)
        self.cache[f.key] = ret
        return ret


def table_callees(prog, f, cls, call):
    """callees of a call through a class-level table of handlers: `self.T[k](...)`, or `h(...)` with `h = self.T[k]` the only
    binding of h in f, T = {key: method name, ...} at class level -> every method the table lists (else [])"""
    cls = cls or f.cls
    if cls is None:
        return []
    fn = call.func
    if isinstance(fn, ast.Name):
        binds = [n for n in walk_no_nested(f.node) if isinstance(n, ast.Assign) and any(isinstance(t, ast.Name) and t.id == fn.id for t in n.targets)]
        if len(binds) != 1 or fn.id in f.params:
            return []
        fn = binds[0].value
    if not (isinstance(fn, ast.Subscript) and isinstance(fn.value, ast.Attribute) and norm(fn.value.value) in ('self', 'cls', 'type(self)', 'self.__class__', cls.name)):
        return []
    v = prog.class_attr(cls, fn.value.attr)
    v = v[1] if v is not None else None
    if not (isinstance(v, ast.Dict) and v.values and all(isinstance(x, ast.Name) for x in v.values)):
        return []
    out = []
    for x in v.values:
        g = prog.resolve_method(cls, x.id)
        if g is None:
            return []
        if g not in out:
            out.append(g)
    return out


def walk_no_nested(fnode):
    stack = list(ast.iter_child_nodes(fnode))
    while stack:
        n = stack.pop()
        if isinstance(n, (ast.FunctionDef, ast.AsyncFunctionDef, ast.Lambda, ast.ClassDef)):
            continue
        yield n
        stack.extend(ast.iter_child_nodes(n))


def root_name_(t):
    while isinstance(t, (ast.Subscript, ast.Attribute)):
        t = t.value
    return t.id if isinstance(t, ast.Name) else None


def local_env(prog, f, summaries=None, cls=None):
    """flow-insensitive classes of f's locals: join over all assignments (two passes for chains)."""
    env = {}
    assigns = []
    for n in walk_no_nested(f.node):
        if isinstance(n, ast.Assign):
            for t in n.targets:
                assigns.append((t, n.value))
        elif isinstance(n, ast.AnnAssign) and n.value is not None:
            assigns.append((n.target, n.value))
        elif isinstance(n, ast.For):
            it = n.iter
            if isinstance(it, ast.Call) and norm(it.func) in ('range', '_np.arange', 'np.arange', '_nb.prange', 'nb.prange',
                                                             'numba.prange'):
                for t in ([n.target] if isinstance(n.target, ast.Name) else []):
                    env[t.id] = ('int',)
            else:
                assigns.append((n.target, ('iter', it)))
        elif isinstance(n, ast.With):
            for item in n.items:
                if item.optional_vars is not None:
                    assigns.append((item.optional_vars, None))
    assigns.sort(key=lambda a: getattr(a[0], 'lineno', 0))
    assigned = set()
    for t, v in assigns:
        for n in ast.walk(t):
            if isinstance(n, ast.Name):
                assigned.add(n.id)
    # index kinds of locals: 'array' when every assignment is a mask/index array, 'int' when every one is an int
    kinds = {}
    c0 = Classifier(prog, f, dict(env), summaries, cls)
    for _ in range(2):
        for t, v in assigns:
            if isinstance(t, ast.Name) and isinstance(v, ast.AST):
                c0.kinds = kinds
                k = c0.index_kind(v)
                prev = kinds.get(t.id, k)
                kinds[t.id] = k if prev == k else None
            elif isinstance(t, ast.Name):
                kinds[t.id] = None
    kinds = {k: v for k, v in kinds.items() if v}
    env['$kinds'] = kinds
    # locals that are always bound to a newly built Python list (container is fresh; its elements may alias)
    lists = {}
    for t, v in assigns:
        if isinstance(t, ast.Name):
            is_list = isinstance(v, (ast.List, ast.ListComp)) or (isinstance(v, ast.Call) and norm(v.func) in ('list', 'sorted'))
            lists[t.id] = lists.get(t.id, True) and is_list
    env['$lists'] = {k for k, v in lists.items() if v}
    # a parameter that is rebound somewhere keeps its caller-owned value on the paths that do not pass the rebinding: it joins the
    # classes of its assignments, unless the first rebinding is an unconditional top-level statement of the body with no store
    # through the name before it (`x = np.array(x)` at the top of a function: the caller's array is dead from there on)
    live_params = {}
    top = {id(st): st for st in f.node.body}
    for p_ in f.params:
        if p_ not in assigned or p_ in ('self', 'cls'):
            continue
        rebinds = [st for st in f.node.body if isinstance(st, ast.Assign) and any(isinstance(t_, ast.Name) and t_.id == p_ for t_ in st.targets)]
        first_any = min((getattr(t_, 'lineno', 0) for t_, _v in assigns for n_ in ast.walk(t_) if isinstance(n_, ast.Name) and n_.id == p_), default=0)
        dominated = bool(rebinds) and rebinds[0].lineno == first_any
        if dominated:
            before = [n_ for n_ in walk_no_nested(f.node) if isinstance(n_, (ast.Assign, ast.AugAssign)) and getattr(n_, 'lineno', 0) < first_any
                      and any(isinstance(t_, ast.Subscript) and root_name_(t_) == p_ for t_ in (n_.targets if isinstance(n_, ast.Assign) else [n_.target]))]
            dominated = not before
        if not dominated:
            live_params[p_] = alias({'param:' + p_})
    for _ in range(4):
        new = dict((k, v) for k, v in env.items() if v == ('int',) or k in ('$kinds', '$lists'))
        for p_, cl_ in live_params.items():
            if new.get(p_) != ('int',):
                new[p_] = cl_
        c = Classifier(prog, f, dict(env), summaries, cls)
        c.assigned = assigned
        for t, v in assigns:
            bind(c, new, t, v)
        if new == env:
            break
        env = new
    for k in list(env):
        if env[k] is None:
            env[k] = UNKNOWN
    return env


def bind(c, env, target, value):
    if isinstance(target, ast.Name):
        if env.get(target.id) == ('int',):
            return
        if isinstance(value, tuple) and value[0] == 'iter':
            cl = iter_class(c, value[1])
        else:
            cl = c.classify(value) if value is not None else UNKNOWN
        if cl is None and target.id not in env:
            return
        env[target.id] = join(env.get(target.id), cl)
    elif isinstance(target, (ast.Tuple, ast.List)):
        if isinstance(value, tuple) and value[0] == 'iter':
            it = value[1]
            # enumerate(x) -> (int, elem) ; zip(a, b) -> elems
            if isinstance(it, ast.Call) and norm(it.func) == 'enumerate' and len(target.elts) == 2:
                if isinstance(target.elts[0], ast.Name):
                    env[target.elts[0].id] = ('int',)
                bind(c, env, target.elts[1], ('iter', it.args[0]))
                return
            if isinstance(it, ast.Call) and norm(it.func) == 'zip' and len(it.args) == len(target.elts):
                for t, a in zip(target.elts, it.args):
                    bind(c, env, t, ('iter', a))
                return
            for t in target.elts:
                bind(c, env, t, None)
            return
        if isinstance(value, (ast.Tuple, ast.List)) and len(value.elts) == len(target.elts):
            for t, v in zip(target.elts, value.elts):
                bind(c, env, t, v)
        else:
            cl = c.classify(value) if value is not None and not isinstance(value, tuple) else UNKNOWN
            for t in target.elts:
                if isinstance(t, ast.Name):
                    env[t.id] = join(env.get(t.id), cl)


def iter_class(c, it):
    """class of the elements obtained by iterating `it` (rows of an array are views of it)."""
    if isinstance(it, ast.Call) and norm(it.func) in ('zip', 'enumerate'):
        return UNKNOWN
    return c.classify(it)


# ------------------------------------------------------------------------------------------------ in-place effects
INPLACE_METHODS = {'sort', 'fill', 'resize', 'put', 'itemset', 'setfield', 'partition', 'byteswap', 'append', 'extend',
                   'insert', 'remove', 'pop', 'clear', 'update', 'reverse', 'setdefault'}


class Effects:
    """in-place effects of repository functions on storage reachable from their parameters / self attributes.

    writes(f) -> [(stmt, description, class)] where class is the alias class of the written storage *in f's frame*
    (roots 'param:x' / 'self.a'); FRESH effects are included so that a rule can count what it judged."""

    def __init__(self, prog, cls=None):
        self.prog = prog
        self.cls = cls
        self.summ = Summaries(prog, cls)
        self.cache = {}
        self.active = set()

    def written_param_roots(self, f):
        """set of parameter names of f whose storage f (or its callees) may write in place; 'UNKNOWN' flag second"""
        roots, unk = set(), False
        for st, desc, cl in self.writes(f):
            if cl == UNKNOWN or cl is None:
                unk = True
            elif cl[0] == 'alias':
                roots |= {r[6:] for r in cl[1] if r.startswith('param:')}
        return roots, unk

    def writes(self, f):
        if f.key in self.cache:
            return self.cache[f.key]
        if f.key in self.active:
            return []
        self.active.add(f.key)
        try:
            if self.prog.numba_kind(f)[0] == 'vectorize':
                self.cache[f.key] = []      # element-wise scalar function: parameters are scalars
                return []
            env = local_env(self.prog, f, self.summ, self.cls)
            c = Classifier(self.prog, f, env, self.summ, self.cls)
            out = []

            lists = env.get('$lists', set())

            def target_class(t):
                if isinstance(t, ast.Name):
                    return c.classify(t)
                if isinstance(t, ast.Subscript) and isinstance(t.value, ast.Name) and t.value.id in lists:
                    return FRESH           # element slot of a list built in this call
                node = t
                while isinstance(node, ast.Subscript):
                    node = node.value
                return c.classify(node)
            for n in walk_no_nested(f.node):
                if isinstance(n, ast.Assign):
                    for t in n.targets:
                        for tt in (t.elts if isinstance(t, (ast.Tuple, ast.List)) else [t]):
                            if isinstance(tt, ast.Subscript):
                                out.append((n, f'element store `{norm(tt)[:50]}`', target_class(tt)))
                elif isinstance(n, ast.AugAssign):
                    t = n.target
                    if isinstance(t, ast.Subscript):
                        out.append((n, f'augmented element store `{norm(t)[:50]}`', target_class(t)))
                    elif isinstance(t, ast.Name):
                        cl = c.classify(t)
                        if cl != FRESH and env.get(t.id) != ('int',):
                            # `x op= v` on an array name mutates the array in place
                            scalarish = isinstance(n.value, ast.Constant) and t.id not in f.params and cl == UNKNOWN
                            if not scalarish:
                                out.append((n, f'augmented assignment to `{t.id}` (in place for arrays)', cl))
                elif isinstance(n, ast.Call):
                    fn = n.func
                    for k in n.keywords:
                        if k.arg == 'out':
                            out.append((n, f'out= argument `{norm(k.value)[:40]}`', target_class(k.value)))
                    if isinstance(fn, ast.Attribute) and fn.attr in INPLACE_METHODS and not isinstance(fn.value, ast.Constant) \
                            and norm(fn.value) not in ('self', 'cls', 'super()'):
                        recv = fn.value
                        cl = target_class(recv) if isinstance(recv, (ast.Name, ast.Subscript, ast.Attribute)) else None
                        if isinstance(recv, ast.Name) and recv.id in lists:
                            cl = FRESH
                        if cl is not None and cl != FRESH and not (isinstance(recv, ast.Name) and env.get(recv.id) in (None,) and recv.id not in f.params):
                            out.append((n, f'in-place method `{norm(fn)[:40]}()`', cl))
                    callee = c.resolve(n)
                    callees = [(callee, list(n.args))] if callee is not None else [(g, list(n.args)[1:] if n.args and norm(n.args[0]) == 'self' else list(n.args))
                                                                                  for g in table_callees(self.prog, f, self.cls, n)]
                    for callee, cargs in callees:
                        if callee.key == f.key:
                            continue
                        nk, _ = self.prog.numba_kind(callee)
                        roots, unk = self.written_param_roots(callee)
                        params = list(callee.params)
                        static = any(norm(d) == 'staticmethod' for d in callee.node.decorator_list)
                        if params and params[0] in ('self', 'cls') and callee.cls is not None and not static:
                            params = params[1:]
                        amap = {}
                        for i, a in enumerate(cargs):
                            if i < len(params):
                                amap[params[i]] = a
                        for k in n.keywords:
                            if k.arg:
                                amap[k.arg] = k.value
                        for r in roots:
                            a = amap.get(r)
                            if a is not None:
                                out.append((n, f'`{callee.qualname}` writes its parameter `{r}` bound to `{norm(a)[:40]}`', c.classify(a)))
        finally:
            self.active.discard(f.key)
        self.cache[f.key] = out
        return out
