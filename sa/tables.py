"""E5 - literal tables of the repository, read with ast.literal_eval (never imported)."""
import ast

from .model import AnalysisError, norm


def literal(prog, modname, name, func=None):
    """value of the module-level (or function-local) literal table `name`: list literal or np.array(<list literal>, ...)"""
    m = prog.need_mod(modname)
    node = None
    if func is None:
        node = m.assigns.get(name)
    else:
        cands = sorted((n for n in ast.walk(func.node) if isinstance(n, ast.Assign) and len(n.targets) == 1
                        and isinstance(n.targets[0], ast.Name) and n.targets[0].id == name), key=lambda n: n.lineno)
        if cands:
            node = cands[0].value        # the initial (literal) binding; later rebinding (reshape, roll) is judged by the rules
    if node is None:
        raise AnalysisError(f'table {modname}.{name} not found')
    v = node
    if isinstance(v, ast.Call) and norm(v.func).split('.')[-1] in ('array', 'asarray') and v.args:
        v = v.args[0]
    if isinstance(v, ast.Call) and norm(v.func) == 'dict' and v.args:
        v = v.args[0]
    try:
        return ast.literal_eval(v), node
    except Exception:
        pass
    if func is None:
        val = computed(prog, m, name)
        if val is not None:
            return val, node
    raise AnalysisError(f'table {modname}.{name} is neither a literal nor computed by code the analysis interpreter can evaluate')


def computed(prog, m, name):
    """a module-level table built by code (a loop filling an array, a helper function returning it): the module's top-level
    statements that bind or fill `name` are interpreted by sa.symtensor on concrete integers - the repository is still not imported;
    what is evaluated is this analysis's reading of the statements.  -> nested lists of ints, or None when not evaluable"""
    from . import symtensor, ratfun
    np = symtensor.np
    if np is None:
        return None

    class _Top:                      # the module body presented as a function without parameters
        pass
    top = _Top()
    top.mod, top.cls, top.parent, top.params, top.key, top.name = m, None, None, [], f'{m.name}:<module>', '<module>'
    stmts = []
    last = -1
    for i, st in enumerate(m.tree.body):
        if isinstance(st, (ast.Import, ast.ImportFrom, ast.FunctionDef, ast.AsyncFunctionDef, ast.ClassDef)):
            continue
        if isinstance(st, ast.Expr) and isinstance(st.value, ast.Constant):
            continue
        stmts.append(st)
        if any(isinstance(n, ast.Name) and n.id == name and isinstance(n.ctx, ast.Store) for n in ast.walk(st)) or \
                any(isinstance(n, ast.Subscript) and isinstance(n.value, ast.Name) and n.value.id == name and isinstance(n.ctx, ast.Store) for n in ast.walk(st)):
            last = len(stmts)
    if last < 0:
        return None
    top.node = ast.FunctionDef(name='<module>', args=ast.arguments(posonlyargs=[], args=[], kwonlyargs=[], kw_defaults=[], defaults=[]), body=stmts[:last], decorator_list=[], lineno=1, col_offset=0)
    te = symtensor.TensorEval(prog, None, {})
    te.numeric = True
    env = {}
    for st in stmts[:last]:
        mentions = any(isinstance(n, ast.Name) and n.id == name for n in ast.walk(st))
        try:
            te.block(top, [st], env)
        except (ratfun.Unknown, symtensor.Raised, Exception):
            if mentions:
                return None          # a statement that shapes the table could not be evaluated
            for n in ast.walk(st):       # an unrelated statement: its targets are unknown from here on
                if isinstance(n, ast.Name) and isinstance(n.ctx, ast.Store):
                    env.pop(n.id, None)
    v = env.get(name)
    if isinstance(v, np.ndarray) and v.dtype != object:
        return v.tolist()
    if isinstance(v, (list, tuple)):
        try:
            return np.array(v).tolist()
        except Exception:
            return None
    return None


def where(prog, modname, node):
    m = prog.need_mod(modname)
    return f'{m.relpath}:{getattr(node, "lineno", 0)}'


def first_diff(a, b, path=()):
    """first position where two nested lists differ -> (path, a_value, b_value) or None"""
    if isinstance(a, (list, tuple)) and isinstance(b, (list, tuple)):
        if len(a) != len(b):
            return path, f'len {len(a)}', f'len {len(b)}'
        for i, (x, y) in enumerate(zip(a, b)):
            d = first_diff(x, y, path + (i,))
            if d:
                return d
        return None
    return None if a == b else (path, a, b)
