"""E5 - literal tables of the repository, read with ast.literal_eval (never imported)."""
import ast

from .model import AnalysisError, norm


def literal(prog, modname, name, func=None):
    """value of the module-level (or function-local) literal table `name`: list literal or np.array(<list literal>, ...)"""
    m = prog.need_mod(modname)
    node = None
    if func is None:
        node = m.assigns.get(name)
    else:
        cands = sorted((n for n in ast.walk(func.node) if isinstance(n, ast.Assign) and len(n.targets) == 1
                        and isinstance(n.targets[0], ast.Name) and n.targets[0].id == name), key=lambda n: n.lineno)
        if cands:
            node = cands[0].value        # the initial (literal) binding; later rebinding (reshape, roll) is judged by the rules
    if node is None:
        raise AnalysisError(f'table {modname}.{name} not found')
    v = node
    if isinstance(v, ast.Call) and norm(v.func).split('.')[-1] in ('array', 'asarray') and v.args:
        v = v.args[0]
    if isinstance(v, ast.Call) and norm(v.func) == 'dict' and v.args:
        v = v.args[0]
    try:
        return ast.literal_eval(v), node
    except Exception:
        raise AnalysisError(f'table {modname}.{name} is no longer a literal (cannot be compared without running code)')


def where(prog, modname, node):
    m = prog.need_mod(modname)
    return f'{m.relpath}:{getattr(node, "lineno", 0)}'


def first_diff(a, b, path=()):
    """first position where two nested lists differ -> (path, a_value, b_value) or None"""
    if isinstance(a, (list, tuple)) and isinstance(b, (list, tuple)):
        if len(a) != len(b):
            return path, f'len {len(a)}', f'len {len(b)}'
        for i, (x, y) in enumerate(zip(a, b)):
            d = first_diff(x, y, path + (i,))
            if d:
                return d
        return None
    return None if a == b else (path, a, b)
