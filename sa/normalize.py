"""Normal form of a function body for the statement-shape rules: the same behaviour written in fewer idioms.

    normal(prog, f)  ->  Func-like copy of f whose body went through
      1. inlining of private helpers (sa.inline);
      2. splitting of parallel tuple assignments  `a, b = x, y`  ->  `a = x; b = y`  (when no target is read on the right);
      3. unrolling of `for` loops over literal tables (a tuple/list literal, or a module-level name bound to one) whose body
         is small, with `setattr(o, '<name>', v)` -> `o.<name> = v` and `getattr(o, '<name>')` -> `o.<name>` folding;
      4. copy propagation of single-assignment local aliases of attribute chains / names / constants
         (`ba = self._build_analysis` ... `ba.run(x)`  ->  `self._build_analysis.run(x)`), when the source cannot change in
         between (the aliased chain is not assigned anywhere in the function).
The result is only ever *read* by rules; line numbers of the original statements are kept for reporting.
"""
import ast
import copy

from .model import norm
from . import inline as _inline
from . import astutil


def _split_tuple_assigns(stmts):
    out = []
    for st in stmts:
        for field in ('body', 'orelse', 'finalbody'):
            blk = getattr(st, field, None)
            if isinstance(blk, list) and blk and isinstance(blk[0], ast.stmt):
                setattr(st, field, _split_tuple_assigns(blk))
        if isinstance(st, ast.Try):
            for h in st.handlers:
                h.body = _split_tuple_assigns(h.body)
        if isinstance(st, ast.Assign) and len(st.targets) == 1 and isinstance(st.targets[0], ast.Tuple) and isinstance(st.value, ast.Tuple) \
                and len(st.targets[0].elts) == len(st.value.elts) and all(isinstance(t, ast.Name) for t in st.targets[0].elts):
            tnames = {t.id for t in st.targets[0].elts}
            reads = {n.id for v in st.value.elts for n in ast.walk(v) if isinstance(n, ast.Name)}
            if not (tnames & reads):
                for t, v in zip(st.targets[0].elts, st.value.elts):
                    a = ast.Assign(targets=[t], value=v)
                    ast.copy_location(a, st)
                    out.append(a)
                continue
        out.append(st)
    return out


def _literal_table(prog, f, e):
    node = e
    if isinstance(e, ast.Name):
        node = f.mod.assigns.get(e.id)
        if node is None:
            return None
    elif isinstance(e, ast.Attribute) and isinstance(e.value, ast.Name) and f.cls is not None and (e.value.id in ('self', 'cls') or e.value.id == f.cls.name):
        # a class-level table read through the instance: one definition in the whole program, never stored on an instance
        got = prog.class_attr(f.cls, e.attr)
        n_defs = sum(1 for c in prog.classes.values() if e.attr in c.class_assigns)
        stored = any(isinstance(a, ast.Attribute) and a.attr == e.attr and isinstance(a.ctx, (ast.Store, ast.Del)) for m in prog.mods.values() for a in ast.walk(m.tree)) or \
            any(isinstance(c, ast.Call) and isinstance(c.func, ast.Name) and c.func.id in ('setattr', 'delattr') and len(c.args) >= 2 and not (isinstance(c.args[1], ast.Constant) and c.args[1].value != e.attr)
                and e.attr in (lambda names_: {e.attr} if names_ is None else names_)(_dynamic_names(prog, m, c))
                for m in prog.mods.values() for c in ast.walk(m.tree))
        if got is None or n_defs != 1 or stored:
            return None
        node = got[1]
    if not isinstance(node, (ast.Tuple, ast.List)):
        return None
    try:
        v = ast.literal_eval(node)
    except Exception:
        return None
    if not isinstance(v, (tuple, list)) or len(v) > 16:
        return None
    return list(v)


def _table_driven_setattr(prog, call):
    """a setattr whose attribute name is not a literal: True when the names it can take are known and `call._avoid` is not one of
    them - the name is a parameter that every call site gives as a literal, or the variable of a loop over a literal table."""
    return False


def _dynamic_names(prog, mod, call):
    """the set of attribute names `setattr(o, <name>, v)` can store, or None when they are not all literals of the program"""
    a = call.args[1]
    if not isinstance(a, ast.Name):
        return None
    pm = mod.__dict__.get('_pm')
    if pm is None:
        pm = mod.__dict__['_pm'] = astutil.parents(mod.tree)
    cur = call
    while cur in pm:
        cur = pm[cur]
        if isinstance(cur, ast.For):
            tn = [cur.target] if isinstance(cur.target, ast.Name) else (list(cur.target.elts) if isinstance(cur.target, ast.Tuple) else [])
            if any(isinstance(t, ast.Name) and t.id == a.id for t in tn):
                it = cur.iter
                src = None
                if isinstance(it, ast.Name):
                    src = mod.assigns.get(it.id)
                elif isinstance(it, ast.Attribute):
                    cands = [c.class_assigns[it.attr] for c in prog.classes.values() if it.attr in c.class_assigns]
                    src = cands[0] if len(cands) == 1 else None
                elif isinstance(it, (ast.Tuple, ast.List)):
                    src = it
                if src is None:
                    return None
                try:
                    v = ast.literal_eval(src)
                except Exception:
                    return None
                out = set()

                def flat(x):
                    if isinstance(x, (tuple, list)):
                        for y in x:
                            flat(y)
                    elif isinstance(x, str):
                        out.add(x)
                flat(v)
                return out
        if isinstance(cur, (ast.FunctionDef, ast.AsyncFunctionDef)):
            params = [x.arg for x in cur.args.posonlyargs + cur.args.args]
            if a.id not in params or any(isinstance(n, ast.Name) and n.id == a.id and isinstance(n.ctx, ast.Store) for n in ast.walk(cur)):
                return None
            pos = params.index(a.id) - (1 if params and params[0] in ('self', 'cls') else 0)
            out = set()
            n_sites = 0
            for g in prog.funcs:
                for c in ast.walk(g.node):
                    if isinstance(c, ast.Call) and (isinstance(c.func, ast.Attribute) and c.func.attr == cur.name or isinstance(c.func, ast.Name) and c.func.id == cur.name):
                        if isinstance(c.func, ast.Attribute) and isinstance(c.func.value, ast.Name) and c.func.value.id == 'self' and g.cls is not None:
                            tgt = prog.resolve_method(g.cls, cur.name)
                            if tgt is not None and tgt.node is not cur and not any(getattr(x.methods.get(cur.name), 'node', None) is cur for x in prog.subclasses_of(g.cls)):
                                continue          # resolves to another method of that name
                        n_sites += 1
                        v = c.args[pos] if pos < len(c.args) else next((k.value for k in c.keywords if k.arg == a.id), None)
                        if not (isinstance(v, ast.Constant) and isinstance(v.value, str)):
                            return None
                        out.add(v.value)
            return out if n_sites else None
    return None


class _Fold(ast.NodeTransformer):
    def __init__(self, env):
        self.env = env

    def visit_Name(self, n):
        if isinstance(n.ctx, ast.Load) and n.id in self.env:
            return ast.copy_location(ast.Constant(value=self.env[n.id]), n)
        return n

    def visit_Call(self, n):
        self.generic_visit(n)
        if isinstance(n.func, ast.Name) and n.func.id == 'getattr' and len(n.args) == 2 and isinstance(n.args[1], ast.Constant) and isinstance(n.args[1].value, str) \
                and n.args[1].value.isidentifier():
            return ast.copy_location(ast.Attribute(value=n.args[0], attr=n.args[1].value, ctx=ast.Load()), n)
        return n


def _fold_setattr(st):
    if isinstance(st, ast.Expr) and isinstance(st.value, ast.Call) and isinstance(st.value.func, ast.Name) and st.value.func.id == 'setattr' \
            and len(st.value.args) == 3 and isinstance(st.value.args[1], ast.Constant) and isinstance(st.value.args[1].value, str) and st.value.args[1].value.isidentifier():
        a = ast.Assign(targets=[ast.Attribute(value=st.value.args[0], attr=st.value.args[1].value, ctx=ast.Store())], value=st.value.args[2])
        return ast.copy_location(a, st)
    return st


def _unroll(prog, f, stmts):
    out = []
    for st in stmts:
        for field in ('body', 'orelse', 'finalbody'):
            blk = getattr(st, field, None)
            if isinstance(blk, list) and blk and isinstance(blk[0], ast.stmt):
                setattr(st, field, _unroll(prog, f, blk))
        if isinstance(st, ast.For) and not st.orelse and len(st.body) <= 4 and not any(isinstance(n, (ast.Break, ast.Continue, ast.Return)) for b in st.body for n in ast.walk(b)):
            table = _literal_table(prog, f, st.iter)
            tnames = [st.target.id] if isinstance(st.target, ast.Name) else ([x.id for x in st.target.elts] if isinstance(st.target, ast.Tuple) and all(isinstance(x, ast.Name) for x in st.target.elts) else None)
            if table is not None and tnames is not None and all((not isinstance(st.target, ast.Tuple)) or (isinstance(row, (tuple, list)) and len(row) == len(tnames)) for row in table) \
                    and all(isinstance(x, (str, int, float, type(None))) for row in table for x in (row if isinstance(row, (tuple, list)) else [row])):
                for row in table:
                    env = dict(zip(tnames, row)) if isinstance(st.target, ast.Tuple) else {tnames[0]: row}
                    for b in st.body:
                        nb = _Fold(env).visit(copy.deepcopy(b))
                        nb = _fold_setattr(nb)
                        ast.copy_location(nb, st)
                        ast.fix_missing_locations(nb)
                        out.append(nb)
                continue
        out.append(_fold_setattr(st) if isinstance(st, ast.Expr) else st)
    return out


def _copy_propagate(fnode):
    """substitute single-assignment locals bound to a Name / attribute chain of `self` or of another such local / a constant"""
    assigns = {}
    stores = {}
    for n in ast.walk(fnode):
        if isinstance(n, ast.Name) and isinstance(n.ctx, (ast.Store, ast.Del)):
            stores[n.id] = stores.get(n.id, 0) + 1
    params = {a.arg for a in fnode.args.posonlyargs + fnode.args.args + fnode.args.kwonlyargs}
    attr_stores = set()
    for n in ast.walk(fnode):
        if isinstance(n, ast.Attribute) and isinstance(n.ctx, (ast.Store, ast.Del)):
            attr_stores.add(norm(n))
        if isinstance(n, ast.Call) and isinstance(n.func, ast.Name) and n.func.id == 'setattr' and len(n.args) >= 2 and isinstance(n.args[1], ast.Constant):
            attr_stores.add(f'{norm(n.args[0])}.{n.args[1].value}')

    def chain_ok(e):
        if isinstance(e, ast.Constant):
            return True
        if isinstance(e, ast.Name):
            return e.id == 'self' or (stores.get(e.id, 0) <= 1 and e.id not in params) or (e.id in params and stores.get(e.id, 0) == 0)
        if isinstance(e, ast.Attribute):
            return chain_ok(e.value) and norm(e) not in attr_stores
        return False
    # only top-level statements of the function body (an alias defined in a branch does not dominate later uses)
    for st in fnode.body:
        if isinstance(st, ast.Assign) and len(st.targets) == 1 and isinstance(st.targets[0], ast.Name):
            name = st.targets[0].id
            if stores.get(name, 0) == 1 and name not in params and isinstance(st.value, (ast.Attribute, ast.Constant)) and chain_ok(st.value):
                assigns[name] = st
    # plain renames `x = y` of single-assignment locals, anywhere in the body
    renames = {}
    for n in ast.walk(fnode):
        if isinstance(n, ast.Assign) and len(n.targets) == 1 and isinstance(n.targets[0], ast.Name) and isinstance(n.value, ast.Name):
            x, y = n.targets[0].id, n.value.id
            if x != y and stores.get(x, 0) == 1 and stores.get(y, 0) == 1 and x not in params and y not in params and x not in assigns:
                renames[x] = (y, n)
    if renames:
        def final(y, seen=()):
            while y in renames and y not in seen:
                seen = seen + (y,)
                y = renames[y][0]
            return y
        drop = {id(n) for _, n in renames.values()}

        class R(ast.NodeTransformer):
            def visit_Name(self, n):
                if n.id in renames:
                    return ast.copy_location(ast.Name(id=final(n.id), ctx=n.ctx), n)
                return n

        def strip(stmts):
            out = []
            for st in stmts:
                if id(st) in drop:
                    continue
                for field in ('body', 'orelse', 'finalbody'):
                    blk = getattr(st, field, None)
                    if isinstance(blk, list) and blk and isinstance(blk[0], ast.stmt):
                        setattr(st, field, strip(blk) or [ast.Pass()])
                if isinstance(st, ast.Try):
                    for h in st.handlers:
                        h.body = strip(h.body) or [ast.Pass()]
                out.append(st)
            return out
        fnode.body = strip(fnode.body) or [ast.Pass()]
        fnode = R().visit(fnode)
    if not assigns:
        return fnode
    mapping = {}
    for name, st in assigns.items():
        v = st.value
        # resolve chains through earlier aliases
        mapping[name] = v

    class S(ast.NodeTransformer):
        def visit_Name(self, n):
            if isinstance(n.ctx, ast.Load) and n.id in mapping:
                return ast.copy_location(copy.deepcopy(self.visit(copy.deepcopy(mapping[n.id])) if isinstance(mapping[n.id], ast.Attribute) else mapping[n.id]), n)
            return n

        def visit_FunctionDef(self, n):
            if n is fnode:
                self.generic_visit(n)
            return n
    new_body = []
    for st in fnode.body:
        if st in assigns.values():
            continue
        new_body.append(S().visit(st))
    fnode.body = new_body or [ast.Pass()]
    return fnode


def _decomprehend(stmts, counter):
    """`x = [E for t in IT]` (one generator, no condition) -> `x = []; for t in IT: _lc = E; x.append(_lc)` so that a helper
    called per element becomes a statement-level call the inliner can splice"""
    out = []
    for st in stmts:
        for field in ('body', 'orelse', 'finalbody'):
            blk = getattr(st, field, None)
            if isinstance(blk, list) and blk and isinstance(blk[0], ast.stmt):
                setattr(st, field, _decomprehend(blk, counter))
        if isinstance(st, ast.Assign) and len(st.targets) == 1 and isinstance(st.targets[0], ast.Name) and isinstance(st.value, ast.ListComp) \
                and all(not g.ifs and not g.is_async for g in st.value.generators) \
                and any(isinstance(c, ast.Call) for c in ast.walk(st.value)):
            counter[0] += 1
            tmp = f'_lc{counter[0]}'
            init = ast.Assign(targets=[st.targets[0]], value=ast.List(elts=[], ctx=ast.Load()))
            body = [ast.Assign(targets=[ast.Name(id=tmp, ctx=ast.Store())], value=st.value.elt),
                    ast.Expr(value=ast.Call(func=ast.Attribute(value=ast.Name(id=st.targets[0].id, ctx=ast.Load()), attr='append', ctx=ast.Load()),
                                            args=[ast.Name(id=tmp, ctx=ast.Load())], keywords=[]))]
            # innermost generator first; `for x in (E,)` is a binding, not a loop
            for g in reversed(st.value.generators):
                if isinstance(g.iter, ast.Tuple) and len(g.iter.elts) == 1 and isinstance(g.target, ast.Name):
                    body = [ast.Assign(targets=[g.target], value=g.iter.elts[0])] + body
                else:
                    body = [ast.For(target=g.target, iter=g.iter, body=body, orelse=[])]
            loop = body[0] if len(body) == 1 else None
            new_stmts = [init] + body
            for n_ in new_stmts:
                ast.copy_location(n_, st)
                ast.fix_missing_locations(n_)
            out.extend(new_stmts)
            continue
        out.append(st)
    return out


_cache = {}


def expand_properties(prog, f, node, depth=2):
    """`self.<name>` where <name> is a read-only property of f's class whose getter is a single `return <expr>` (no setter) is
    replaced by that expression: derived quantities written as properties are read as the expressions they stand for"""
    if f.cls is None or depth <= 0:
        return node
    changed = [False]

    class P(ast.NodeTransformer):
        def visit_Attribute(self, n):
            self.generic_visit(n)
            if isinstance(n.ctx, ast.Load) and isinstance(n.value, ast.Name) and n.value.id == 'self':
                g = prog.resolve_getter(f.cls, n.attr)
                if g is not None and prog.resolve_setter(f.cls, n.attr) is None and g.node is not f.node:
                    body = [s_ for s_ in g.node.body if not (isinstance(s_, ast.Expr) and isinstance(s_.value, ast.Constant))]
                    if len(body) == 1 and isinstance(body[0], ast.Return) and body[0].value is not None and len(g.params) == 1:
                        changed[0] = True
                        return ast.copy_location(copy.deepcopy(body[0].value), n)
            return n
    node = P().visit(node)
    if changed[0]:
        ast.fix_missing_locations(node)
        return expand_properties(prog, f, node, depth - 1)
    return node


def _record_fields(prog, f, ctor):
    """the constructor call `K(...)` builds a plain record: -> (field names in positional order, {property: getter return expr},
    is_tuple) or None.  K is a module-level `namedtuple('K', [...])` / `namedtuple('K', 'a b')`, or a repository class whose
    __init__ only stores its parameters under their own attribute each (plus read-only single-return properties)."""
    if not isinstance(ctor, ast.Call) or not isinstance(ctor.func, (ast.Name, ast.Attribute)):
        return None
    r = prog.resolve(f.mod, ctor.func)
    if r and r[0] == 'value':
        v = r[2]
        if isinstance(v, ast.Call) and isinstance(v.func, (ast.Name, ast.Attribute)) and (prog.dotted(r[1], v.func) or norm(v.func)).split('.')[-1] == 'namedtuple' \
                and len(v.args) == 2 and not v.keywords:
            try:
                fl = ast.literal_eval(v.args[1])
            except Exception:
                return None
            if isinstance(fl, str):
                fl = fl.replace(',', ' ').split()
            if isinstance(fl, (list, tuple)) and fl and all(isinstance(x, str) and x.isidentifier() for x in fl):
                return list(fl), {}, True
        return None
    if r and r[0] == 'class':
        ci = r[1]
        if ci.bases or ci.ext_bases and any(b not in ('object',) for b in ci.ext_bases):
            return None
        init = ci.methods.get('__init__')
        if init is None or init.node.args.vararg or init.node.args.kwarg or init.node.args.kwonlyargs:
            return None
        fields = []
        attr_of = {}
        for st in init.node.body:
            if isinstance(st, ast.Expr) and isinstance(st.value, ast.Constant):
                continue
            if isinstance(st, ast.Assign) and len(st.targets) == 1 and isinstance(st.targets[0], ast.Attribute) and norm(st.targets[0].value) == 'self' \
                    and isinstance(st.value, ast.Name) and st.value.id in init.params[1:] and st.value.id not in attr_of:
                attr_of[st.value.id] = st.targets[0].attr
            else:
                return None
        if set(attr_of) != set(init.params[1:]):
            return None
        fields = [attr_of[p_] for p_ in init.params[1:]]
        props = {}
        for name, g in ci.getters.items():
            body = [s_ for s_ in g.node.body if not (isinstance(s_, ast.Expr) and isinstance(s_.value, ast.Constant))]
            if len(body) == 1 and isinstance(body[0], ast.Return) and body[0].value is not None and name not in ci.setters:
                props[name] = body[0].value
        # nothing else may store the fields (a method mutating the record)
        for g in ci.methods.values():
            if g is init:
                continue
            if any(isinstance(n, ast.Attribute) and isinstance(n.ctx, (ast.Store, ast.Del)) for n in ast.walk(g.node)):
                return None
        return fields, props, False
    return None


class _FoldLiteralLookups(ast.NodeTransformer):
    """`{'a': X, 'b': Y}['a']` -> X: a dict display with constant, distinct keys subscripted by a constant, when building the
    other entries has no effect (names, attributes, constants, or calls of names on such arguments - constructors of records)"""

    @staticmethod
    def _inert(e, depth=0):
        if isinstance(e, (ast.Name, ast.Constant)):
            return True
        if isinstance(e, ast.Attribute):
            return _FoldLiteralLookups._inert(e.value, depth)
        if isinstance(e, (ast.Tuple, ast.List)):
            return all(_FoldLiteralLookups._inert(x, depth) for x in e.elts)
        if isinstance(e, ast.Call) and depth < 2 and isinstance(e.func, ast.Name) and e.func.id[:1] == '_' and e.func.id[1:2].isupper():
            return all(_FoldLiteralLookups._inert(a, depth + 1) for a in e.args) and all(k.arg and _FoldLiteralLookups._inert(k.value, depth + 1) for k in e.keywords)
        return False

    def visit_Subscript(self, n):
        self.generic_visit(n)
        if isinstance(n.ctx, ast.Load) and isinstance(n.value, ast.Dict) and isinstance(n.slice, ast.Constant) and n.value.keys \
                and all(isinstance(k, ast.Constant) for k in n.value.keys):
            keys = [k.value for k in n.value.keys]
            if len(set(map(repr, keys))) == len(keys) and n.slice.value in keys and all(self._inert(v) for v in n.value.values):
                return ast.copy_location(n.value.values[keys.index(n.slice.value)], n)
        return n


def scalar_replace_records(prog, f, node):
    node = _FoldLiteralLookups().visit(node)
    return _scalar_replace_records(prog, f, node)


def _scalar_replace_records(prog, f, node):
    """a local bound once to a plain record (`x = K(a, b)`, see _record_fields) and used afterwards only as `x.field`,
    `x.property`, `*x` / `a, b = x` (tuples) is replaced by one local per field: pipelines that pass small named tuples or outcome
    objects between their stages read like the code that passes the values themselves."""
    stores = {}
    for n in ast.walk(node):
        if isinstance(n, ast.Name) and isinstance(n.ctx, (ast.Store, ast.Del)):
            stores[n.id] = stores.get(n.id, 0) + 1
    params = {a.arg for a in node.args.posonlyargs + node.args.args + node.args.kwonlyargs}
    pm = astutil.parents(node)
    changed = False
    for st in [n for n in ast.walk(node) if isinstance(n, ast.Assign)]:
        if not (len(st.targets) == 1 and isinstance(st.targets[0], ast.Name) and isinstance(st.value, ast.Call)):
            continue
        x = st.targets[0].id
        if stores.get(x, 0) != 1 or x in params:
            continue
        rf_ = _record_fields(prog, f, st.value)
        if rf_ is None:
            continue
        fields, props, is_tuple = rf_
        call = st.value
        if any(isinstance(a, ast.Starred) for a in call.args) or any(k.arg is None for k in call.keywords):
            continue
        vals = {}
        for i_, a in enumerate(call.args):
            if i_ < len(fields):
                vals[fields[i_]] = a
        for k in call.keywords:
            if k.arg in fields and k.arg not in vals:
                vals[k.arg] = k.value
        if set(vals) != set(fields) or len(call.args) + len(call.keywords) != len(fields):
            continue
        # the block holding the construction, and the statements after it
        par = pm.get(st)
        blk = None
        for fld in ('body', 'orelse', 'finalbody'):
            b_ = getattr(par, fld, None)
            if isinstance(b_, list) and any(z is st for z in b_):
                blk = b_
        if blk is None:
            continue
        after = blk[[i for i, z in enumerate(blk) if z is st][0] + 1:]
        after_nodes = {id(n) for z in after for n in ast.walk(z)}
        uses = [n for n in ast.walk(node) if isinstance(n, ast.Name) and n.id == x and isinstance(n.ctx, ast.Load)]
        ok = True
        for u in uses:
            up = pm.get(u)
            if id(u) not in after_nodes:
                ok = False
            elif isinstance(up, ast.Attribute) and isinstance(up.ctx, ast.Load) and (up.attr in fields or up.attr in props):
                pass
            elif is_tuple and isinstance(up, ast.Starred) and isinstance(pm.get(up), ast.Call) and up in pm.get(up).args:
                pass
            elif is_tuple and isinstance(up, ast.Assign) and up.value is u and len(up.targets) == 1 and isinstance(up.targets[0], ast.Tuple) \
                    and len(up.targets[0].elts) == len(fields) and not any(isinstance(e_, ast.Starred) for e_ in up.targets[0].elts):
                pass
            else:
                ok = False
        if not ok or not uses:
            continue
        # one local per field, bound where the record was built (arguments are evaluated in the same order)
        order = [a for a in call.args] + [k.value for k in call.keywords]
        names = {}
        binds = []
        for a in order:
            fld = [k_ for k_, v_ in vals.items() if v_ is a][0]
            direct = isinstance(a, ast.Constant) or (isinstance(a, ast.Name) and stores.get(a.id, 0) + (1 if a.id in params else 0) <= 1)
            if direct:
                names[fld] = a
            else:
                nm = f'{x}__{fld}'
                names[fld] = ast.Name(id=nm, ctx=ast.Load())
                binds.append(ast.copy_location(ast.Assign(targets=[ast.Name(id=nm, ctx=ast.Store())], value=a), st))

        def field_expr(fld):
            return copy.deepcopy(names[fld])

        class PropSub(ast.NodeTransformer):
            def visit_Attribute(self, n):
                self.generic_visit(n)
                if isinstance(n.value, ast.Name) and n.value.id == 'self' and n.attr in fields and isinstance(n.ctx, ast.Load):
                    return field_expr(n.attr)
                return n

        class R(ast.NodeTransformer):
            def visit_Attribute(self, n):
                if isinstance(n.value, ast.Name) and n.value.id == x and isinstance(n.ctx, ast.Load):
                    if n.attr in fields:
                        return ast.copy_location(field_expr(n.attr), n)
                    if n.attr in props:
                        return ast.copy_location(PropSub().visit(copy.deepcopy(props[n.attr])), n)
                self.generic_visit(n)
                return n

            def visit_Call(self, n):
                new_args = []
                for a in n.args:
                    if isinstance(a, ast.Starred) and isinstance(a.value, ast.Name) and a.value.id == x:
                        new_args.extend(field_expr(fl_) for fl_ in fields)
                    else:
                        new_args.append(a)
                n.args = new_args
                self.generic_visit(n)
                return n

            def visit_Assign(self, n):
                if isinstance(n.value, ast.Name) and n.value.id == x and len(n.targets) == 1 and isinstance(n.targets[0], ast.Tuple):
                    n.value = ast.Tuple(elts=[field_expr(fl_) for fl_ in fields], ctx=ast.Load())
                    return n
                self.generic_visit(n)
                return n
        if any(isinstance(n, ast.Name) and n.id == 'self' for pv in props.values() for n in ast.walk(PropSub().visit(copy.deepcopy(pv)))):
            # a property reading anything else of the record object: only replace when it is not used
            used_props = {pm.get(u).attr for u in uses if isinstance(pm.get(u), ast.Attribute) and pm.get(u).attr in props}
            if any(isinstance(n, ast.Name) and n.id == 'self' for p_ in used_props for n in ast.walk(PropSub().visit(copy.deepcopy(props[p_])))):
                continue
        for z in after:
            R().visit(z)
        i0 = [i for i, z in enumerate(blk) if z is st][0]
        blk[i0:i0 + 1] = binds if binds else [ast.copy_location(ast.Pass(), st)]
        changed = True
        ast.fix_missing_locations(node)
        return _scalar_replace_records(prog, f, node)      # parents changed: start again for the next record
    return node


class _ZipLoops(ast.NodeTransformer):
    """`for i, (a, b) in enumerate(zip(X, Y))` / `for a, b in zip(X, Y)` / `for i, a in enumerate(X)` over plain attribute or name
    expressions -> `for i in range(len(X)): a = X[i]; b = Y[i]` (arrays of one length iterate over their first axis; the rules read
    element accesses through the index).  Only when the iterated expressions are not rebound in the loop body."""

    def __init__(self):
        self.n = 0

    def visit_For(self, node):
        self.generic_visit(node)
        it, tg = node.iter, node.target
        idx = None
        if isinstance(it, ast.Call) and norm(it.func) == 'enumerate' and len(it.args) == 1 and not it.keywords and isinstance(tg, ast.Tuple) and len(tg.elts) == 2 and isinstance(tg.elts[0], ast.Name):
            idx, it, tg = tg.elts[0].id, it.args[0], tg.elts[1]
        if isinstance(it, ast.Call) and norm(it.func) == 'zip' and it.args and not it.keywords:
            srcs = list(it.args)
            tgts = list(tg.elts) if isinstance(tg, (ast.Tuple, ast.List)) else None
        elif idx is not None:
            srcs, tgts = [it], [tg]
        else:
            return node
        if tgts is None or len(tgts) != len(srcs) or not all(isinstance(t, ast.Name) for t in tgts) or node.orelse:
            return node
        if not all(isinstance(s_, (ast.Name, ast.Attribute)) and 'self' == norm(s_).split('.')[0] and norm(s_).count('.') == 1 for s_ in srcs):
            return node          # only attributes of self (accumulators): locals may be generators / lists of another kind
        written = {norm(t) for n in ast.walk(node) if isinstance(n, (ast.Assign, ast.AugAssign)) for t in (n.targets if isinstance(n, ast.Assign) else [n.target])}
        if any(norm(s_) in written for s_ in srcs):
            return node
        if idx is None:
            self.n += 1
            idx = f'_zi{self.n}'
        pre = []
        for t, s_ in zip(tgts, srcs):
            a = ast.Assign(targets=[ast.Name(id=t.id, ctx=ast.Store())], value=ast.Subscript(value=copy.deepcopy(s_), slice=ast.Name(id=idx, ctx=ast.Load()), ctx=ast.Load()))
            ast.copy_location(a, node)
            pre.append(a)
        new = ast.For(target=ast.Name(id=idx, ctx=ast.Store()),
                      iter=ast.Call(func=ast.Name(id='range', ctx=ast.Load()), args=[ast.Call(func=ast.Name(id='len', ctx=ast.Load()), args=[copy.deepcopy(srcs[0])], keywords=[])], keywords=[]),
                      body=pre + node.body, orelse=[])
        ast.copy_location(new, node)
        ast.fix_missing_locations(new)
        return new


def normal(prog, f, skip=(), depth=2):
    _cache = prog.__dict__.setdefault('_normal_cache', {})
    k = (f.key, id(f.node), tuple(sorted(skip)), depth)
    if k in _cache:
        return _cache[k]
    f0 = f
    pre = copy.deepcopy(f.node)
    pre = expand_properties(prog, f, pre)
    pre.body = _decomprehend(pre.body, [0])
    if norm(pre) != norm(f.node):
        f = copy.copy(f)
        f.node = pre
    g = _inline.Inliner(prog, f, depth, skip)
    gnode = g.run()
    g.node = gnode
    g.inlined_helpers = list(g.inlined)
    f = f0
    node = copy.deepcopy(g.node)
    node = scalar_replace_records(prog, f0, node)
    node = _ZipLoops().visit(node)
    node.body = _split_tuple_assigns(node.body)
    node.body = _unroll(prog, f, node.body)
    node = _copy_propagate(node)
    ast.fix_missing_locations(node)
    h = copy.copy(f)
    h.node = node
    h.inlined_helpers = list(getattr(g, 'inlined_helpers', []))
    _cache[k] = h
    return h


# ------------------------------------------------------------------------------------------------ guard clauses -> nesting
def _neg(e):
    if isinstance(e, ast.UnaryOp) and isinstance(e.op, ast.Not):
        return e.operand
    return ast.copy_location(ast.UnaryOp(op=ast.Not(), operand=e), e)


def _exits(stmts):
    return bool(stmts) and isinstance(stmts[-1], (ast.Return, ast.Raise, ast.Continue, ast.Break))


def _structure(stmts, tail, loop_tail):
    """tail: falling off the end of `stmts` ends the function with None; loop_tail: falling off the end ends a loop iteration"""
    out = []
    for i, st in enumerate(stmts):
        last = i == len(stmts) - 1
        rest = stmts[i + 1:]
        if isinstance(st, ast.If):
            if not st.orelse and rest and _exits(st.body):
                # `if C: ...exit` followed by rest  ==  `if C: ...exit  else: rest`
                st.orelse = rest
                last, rest = True, []
            st.body = _structure(st.body, tail and last, loop_tail and last)
            st.orelse = _structure(st.orelse, tail and last, loop_tail and last)
            # an arm that only leaves with nothing (`return` in tail position / `continue` at the end of an iteration) is empty
            for arm in ('body', 'orelse'):
                blk = getattr(st, arm)
                if len(blk) == 1 and last and ((tail and isinstance(blk[0], ast.Return) and (blk[0].value is None or (isinstance(blk[0].value, ast.Constant) and blk[0].value.value is None)))
                                               or (loop_tail and isinstance(blk[0], ast.Continue))):
                    setattr(st, arm, [])
            if not st.body and st.orelse:
                st.test, st.body, st.orelse = _neg(st.test), st.orelse, []
            if not st.body and not st.orelse:
                st.body = [ast.copy_location(ast.Pass(), st)]
            # `if A: (if B: X)`  ==  `if A and B: X`
            while not st.orelse and len(st.body) == 1 and isinstance(st.body[0], ast.If) and not st.body[0].orelse:
                inner = st.body[0]
                vals = (st.test.values if isinstance(st.test, ast.BoolOp) and isinstance(st.test.op, ast.And) else [st.test]) + \
                       (inner.test.values if isinstance(inner.test, ast.BoolOp) and isinstance(inner.test.op, ast.And) else [inner.test])
                st.test = ast.copy_location(ast.BoolOp(op=ast.And(), values=list(vals)), st.test)
                st.body = inner.body
            out.append(st)
            if not rest and not last:
                break
            if last:
                break
            continue
        if isinstance(st, (ast.For, ast.While)):
            st.body = _structure(st.body, False, True)
            st.orelse = _structure(st.orelse, False, False) if st.orelse else st.orelse
        elif isinstance(st, ast.Try):
            st.body = _structure(st.body, False, False)
            for h in st.handlers:
                h.body = _structure(h.body, False, False)
            st.orelse = _structure(st.orelse, False, False) if st.orelse else st.orelse
            st.finalbody = _structure(st.finalbody, False, False) if st.finalbody else st.finalbody
        elif isinstance(st, ast.With):
            st.body = _structure(st.body, tail and last, False)
        out.append(st)
    return out


def structured(f):
    """Func-like copy of f with guard clauses turned into nesting: `if C: return` + rest -> `if not C: rest`, `if C: raise` + rest ->
    `if C: raise else: rest`, `if C: continue` likewise inside loops, nested single ifs merged into one conjunction.  Same
    behaviour, one shape for the rules that read the conditions a statement depends on."""
    node = copy.deepcopy(f.node)
    node.body = _structure(node.body, True, False)
    ast.fix_missing_locations(node)
    g = copy.copy(f)
    g.node = node
    return g


def conjuncts(guards):
    """[(test, polarity)] with `not` removed into the polarity and positive conjunctions / negative disjunctions split"""
    out = []
    for t, pol in guards:
        while isinstance(t, ast.UnaryOp) and isinstance(t.op, ast.Not):
            t, pol = t.operand, not pol
        if isinstance(t, ast.BoolOp) and ((isinstance(t.op, ast.And) and pol) or (isinstance(t.op, ast.Or) and not pol)):
            out.extend(conjuncts([(v, pol) for v in t.values]))
        else:
            out.append((t, pol))
    return out


def propagate_access_paths(f):
    """Func-like copy of f in which single-store locals bound to an access path of self (`w = self.counters[i]`, indices being
    constants or loop variables) are replaced by that path wherever they are read (the attributes on the path must not be rebound
    by plain assignment inside the function... element stores do not move the path)"""
    node = copy.deepcopy(f.node)
    stores = {}
    for n in ast.walk(node):
        if isinstance(n, ast.Name) and isinstance(n.ctx, (ast.Store, ast.Del)):
            stores[n.id] = stores.get(n.id, 0) + 1
    loopvars = {t.id for n in ast.walk(node) if isinstance(n, ast.For) for t in ast.walk(n.target) if isinstance(t, ast.Name)}
    rebound = {norm(t) for n in ast.walk(node) if isinstance(n, ast.Assign) for t in n.targets if isinstance(t, ast.Attribute)}
    params = {a.arg for a in node.args.posonlyargs + node.args.args + node.args.kwonlyargs}

    def path(e):
        if isinstance(e, ast.Name):
            return e.id == 'self'
        if isinstance(e, ast.Attribute):
            return path(e.value)
        if isinstance(e, ast.Subscript):
            idx = e.slice.elts if isinstance(e.slice, ast.Tuple) else [e.slice]
            return path(e.value) and all(isinstance(i, ast.Constant) or (isinstance(i, ast.Name) and i.id in loopvars and stores.get(i.id) == 1) for i in idx)
        return False

    def root_attr(e):
        while isinstance(e, ast.Subscript):
            e = e.value
        return norm(e)
    aliases = {}
    parent = {}
    for p_ in ast.walk(node):
        for c_ in ast.iter_child_nodes(p_):
            parent[c_] = p_

    def loop_of(x):
        while x in parent:
            x = parent[x]
            if isinstance(x, (ast.For, ast.While)):
                return x
        return None

    def stable_in_loop(n):
        # the attribute is rebound somewhere in the function, but not inside the loop that holds both the binding and every read
        lp = loop_of(n)
        if lp is None:
            return False
        inside = {id(x) for x in ast.walk(lp)}
        name = n.targets[0].id
        reads = [x for x in ast.walk(node) if isinstance(x, ast.Name) and x.id == name and isinstance(x.ctx, ast.Load)]
        if not all(id(x) in inside for x in reads):
            return False
        ra = root_attr(n.value)
        return not any(isinstance(x, ast.Assign) and id(x) in inside and any(isinstance(t, ast.Attribute) and norm(t) == ra for t in x.targets) for x in ast.walk(lp))
    for n in ast.walk(node):
        if isinstance(n, ast.Assign) and len(n.targets) == 1 and isinstance(n.targets[0], ast.Name) and stores.get(n.targets[0].id) == 1 \
                and n.targets[0].id not in params and isinstance(n.value, ast.Subscript) and path(n.value) and (root_attr(n.value) not in rebound or stable_in_loop(n)):
            aliases[n.targets[0].id] = n

    if not aliases:
        return f

    class S(ast.NodeTransformer):
        def visit_Name(self, n):
            if isinstance(n.ctx, ast.Load) and n.id in aliases:
                return ast.copy_location(copy.deepcopy(aliases[n.id].value), n)
            return n

    def strip(stmts):
        out = []
        for st in stmts:
            if any(st is a for a in aliases.values()):
                continue
            for field in ('body', 'orelse', 'finalbody'):
                blk = getattr(st, field, None)
                if isinstance(blk, list) and blk and isinstance(blk[0], ast.stmt):
                    setattr(st, field, strip(blk) or [ast.Pass()])
            out.append(st)
        return out
    node.body = strip(node.body)
    node = S().visit(node)
    ast.fix_missing_locations(node)
    g = copy.copy(f)
    g.node = node
    return g
