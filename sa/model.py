"""E0 - program model of /repo/scared built from the syntax trees only.

Nothing here imports or executes repository code.  The model resolves what the rules need:
modules and import aliases (incl. star re-exports), classes with C3 MRO, methods (self./super()
dispatch), properties, decorators, module-level aliases, and a dotted name for every callee that
can be resolved ("numpy.zeros", "scared.aes.base.sub_bytes", ...).
"""
import ast
import os

REPO = os.environ.get('SCARED_REPO', '/repo')
PKG = 'scared'

EXT_CANON = {'np': 'numpy', 'nb': 'numba'}


class AnalysisError(Exception):
    """The checker could not decide (anchor vanished, unknown shape): exit 2, never a violation."""


def norm(node):
    """Normalised text of a node: the identity of a statement/expression (no line numbers, no layout)."""
    if isinstance(node, str):
        return node
    return ast.unparse(node)


class _SplitParallel(ast.NodeTransformer):
    """`a, b = x, y` -> `a = x; b = y` when no target is read on the right-hand side (same behaviour: every right-hand expression
    is evaluated from values the assignment does not change).  Done once at load time so that no rule has to know the form."""

    UFUNC_AUG = {'add': ast.Add, 'subtract': ast.Sub, 'multiply': ast.Mult, 'divide': ast.Div, 'true_divide': ast.Div, 'bitwise_xor': ast.BitXor, 'bitwise_or': ast.BitOr,
                 'bitwise_and': ast.BitAnd}

    def visit_Expr(self, n):
        # `np.add(x, e, out=x)` as a statement is `x += e` (same ufunc, same in-place store): one form for every rule
        self.generic_visit(n)
        c = n.value
        if isinstance(c, ast.Call) and isinstance(c.func, ast.Attribute) and isinstance(c.func.value, ast.Name) and c.func.value.id in ('_np', 'np', 'numpy') \
                and c.func.attr in self.UFUNC_AUG and len(c.args) == 2 and len(c.keywords) == 1 and c.keywords[0].arg == 'out' \
                and isinstance(c.args[0], (ast.Name, ast.Attribute, ast.Subscript)) and ast.unparse(c.keywords[0].value) == ast.unparse(c.args[0]):
            import copy as _copy
            tgt = _copy.deepcopy(c.args[0])
            for x in ast.walk(tgt):
                if hasattr(x, 'ctx'):
                    x.ctx = ast.Load()
            tgt.ctx = ast.Store()
            a = ast.AugAssign(target=tgt, op=self.UFUNC_AUG[c.func.attr](), value=c.args[1])
            ast.copy_location(a, n)
            ast.fix_missing_locations(a)
            return a
        return n

    def visit_Assign(self, n):
        self.generic_visit(n)
        if len(n.targets) == 2 and {type(t) for t in n.targets} == {ast.Name, ast.Attribute}:
            # `name = self.attr = v` (either order): one object under two names -> `self.attr = v; name = self.attr`
            at = next(t for t in n.targets if isinstance(t, ast.Attribute))
            nm = next(t for t in n.targets if isinstance(t, ast.Name))
            if isinstance(at.value, ast.Name) and at.value.id == 'self' and not any(isinstance(x, ast.Name) and x.id == nm.id for x in ast.walk(n.value)):
                a1 = ast.Assign(targets=[at], value=n.value)
                a2 = ast.Assign(targets=[nm], value=ast.Attribute(value=ast.Name(id='self', ctx=ast.Load()), attr=at.attr, ctx=ast.Load()))
                for a in (a1, a2):
                    ast.copy_location(a, n)
                    ast.fix_missing_locations(a)
                return [a1, a2]
        if len(n.targets) == 1 and isinstance(n.targets[0], (ast.Tuple, ast.List)) and isinstance(n.value, (ast.Tuple, ast.List)) \
                and len(n.targets[0].elts) == len(n.value.elts) and len(n.value.elts) > 1 \
                and all(isinstance(t, (ast.Name, ast.Attribute)) for t in n.targets[0].elts) \
                and not any(isinstance(v, ast.Starred) for v in n.value.elts):
            ttxt = {ast.unparse(t) for t in n.targets[0].elts}
            roots = {t.id for t in n.targets[0].elts if isinstance(t, ast.Name)}
            for v in n.value.elts:
                for x in ast.walk(v):
                    if isinstance(x, (ast.Name, ast.Attribute)) and ast.unparse(x) in ttxt:
                        return n
                    if isinstance(x, ast.Name) and x.id in roots:
                        return n
                    if isinstance(x, ast.Call):
                        return n          # a call could read or change a target: keep the parallel form
            out = []
            for t, v in zip(n.targets[0].elts, n.value.elts):
                a = ast.Assign(targets=[t], value=v)
                ast.copy_location(a, n)
                ast.fix_missing_locations(a)
                out.append(a)
            return out
        return n


def _split_parallel_assignments(tree):
    return _SplitParallel().visit(tree)


class Module:
    def __init__(self, name, path, src, is_pkg):
        self.name = name
        self.path = path
        self.src = src
        self.is_pkg = is_pkg
        self.tree = _split_parallel_assignments(ast.parse(src, filename=path))
        self.names = {}       # local name -> ('mod', modname) | ('obj', modname, objname) | ('ext', dotted)
        self.stars = []       # modules star-imported
        self.classes = {}
        self.funcs = {}
        self.assigns = {}     # top-level NAME = value (last assignment wins), value node
        self.relpath = os.path.relpath(path, REPO)

    @property
    def package(self):
        return self.name if self.is_pkg else self.name.rsplit('.', 1)[0]

    def __repr__(self):
        return f'<Module {self.name}>'


class Func:
    """A function definition with its owner."""

    def __init__(self, mod, node, qualname, cls=None, parent=None):
        self.mod = mod
        self.node = node
        self.qualname = qualname
        self.cls = cls          # ClassInfo or None
        self.parent = parent    # enclosing Func or None
        self.name = node.name

    @property
    def key(self):
        return f'{self.mod.name}:{self.qualname}'

    @property
    def params(self):
        a = self.node.args
        return [x.arg for x in a.posonlyargs + a.args] + ([a.vararg.arg] if a.vararg else []) + \
               [x.arg for x in a.kwonlyargs] + ([a.kwarg.arg] if a.kwarg else [])

    def where(self, node=None):
        n = node if node is not None else self.node
        return f'{self.mod.relpath}:{getattr(n, "lineno", self.node.lineno)}'

    def __repr__(self):
        return f'<Func {self.key}>'


class ClassInfo:
    def __init__(self, mod, node):
        self.mod = mod
        self.node = node
        self.name = node.name
        self.bases = []        # resolved ClassInfo
        self.ext_bases = []    # dotted names of unresolved/external bases
        self.mro = None
        self.methods = {}      # name -> Func (plain defs, incl. property getters)
        self.setters = {}      # property name -> Func
        self.getters = {}      # property name -> Func
        self.class_assigns = {}  # NAME = value at class level

    @property
    def key(self):
        return f'{self.mod.name}:{self.name}'

    def __repr__(self):
        return f'<Class {self.key}>'


class Program:
    def __init__(self, repo=None):
        self.repo = repo or REPO
        self.mods = {}
        self.classes = {}     # key -> ClassInfo
        self.funcs = []       # every Func (module level, methods, nested)
        self._load()
        self._imports()
        self._classes()
        self.by_key = {f.key: f for f in self.funcs}

    # ------------------------------------------------------------------ loading
    def _load(self):
        root = os.path.join(self.repo, PKG)
        if not os.path.isdir(root):
            raise AnalysisError(f'package directory {root} not found')
        for dp, dn, fn in os.walk(root):
            dn[:] = sorted(d for d in dn if d != '__pycache__')
            for f in sorted(fn):
                if not f.endswith('.py') or f == '_version.py':
                    continue
                p = os.path.join(dp, f)
                rel = os.path.relpath(p, self.repo)[:-3].replace(os.sep, '.')
                is_pkg = f == '__init__.py'
                if is_pkg:
                    rel = rel[:-len('.__init__')]
                try:
                    src = open(p, encoding='utf-8').read()
                    m = Module(rel, p, src, is_pkg)
                except SyntaxError as e:
                    raise AnalysisError(f'cannot parse {p}: {e}')
                m.relpath = os.path.relpath(p, self.repo)
                self.mods[rel] = m

    def _imports(self):
        for m in self.mods.values():
            for n in ast.walk(m.tree):
                if isinstance(n, ast.Import):
                    for a in n.names:
                        if a.asname:
                            m.names[a.asname] = ('mod', a.name) if a.name in self.mods else ('ext', a.name)
                        else:
                            top = a.name.split('.')[0]
                            m.names[top] = ('mod', top) if top in self.mods else ('ext', top)
                elif isinstance(n, ast.ImportFrom):
                    if n.level:
                        base = m.package
                        for _ in range(n.level - 1):
                            base = base.rsplit('.', 1)[0]
                        src = base + ('.' + n.module if n.module else '')
                    else:
                        src = n.module
                    for a in n.names:
                        if a.name == '*':
                            if src in self.mods:
                                m.stars.append(src)
                            continue
                        loc = a.asname or a.name
                        if src + '.' + a.name in self.mods:
                            m.names[loc] = ('mod', src + '.' + a.name)
                        elif src in self.mods:
                            m.names[loc] = ('obj', src, a.name)
                        else:
                            m.names[loc] = ('ext', src + '.' + a.name)
            for n in m.tree.body:
                if isinstance(n, ast.ClassDef):
                    m.classes[n.name] = n
                elif isinstance(n, (ast.FunctionDef, ast.AsyncFunctionDef)):
                    m.funcs[n.name] = n
                elif isinstance(n, ast.Assign):
                    for t_ in n.targets:                 # NAME = value, A = B = value, A, B = x, y
                        if isinstance(t_, ast.Name):
                            m.assigns[t_.id] = n.value
                        elif isinstance(t_, (ast.Tuple, ast.List)) and isinstance(n.value, (ast.Tuple, ast.List)) and len(t_.elts) == len(n.value.elts):
                            for x_, y_ in zip(t_.elts, n.value.elts):
                                if isinstance(x_, ast.Name):
                                    m.assigns[x_.id] = y_
                elif isinstance(n, ast.AnnAssign) and isinstance(n.target, ast.Name) and n.value is not None:
                    m.assigns[n.target.id] = n.value

    def _classes(self):
        for m in self.mods.values():
            for n in m.tree.body:
                if isinstance(n, ast.ClassDef):
                    ci = ClassInfo(m, n)
                    self.classes[ci.key] = ci
                    self._class_members(ci)
                elif isinstance(n, (ast.FunctionDef, ast.AsyncFunctionDef)):
                    self._add_func(m, n, n.name, None, None)
        # a class attribute bound to a module-level function (`_kernel = staticmethod(_module_kernel)`, or the bare name) is a
        # method under another name: register a copy of the function as that method so that every rule resolves it as before
        import copy as _copy
        for ci in self.classes.values():
            for name, v in list(ci.class_assigns.items()):
                static = isinstance(v, ast.Call) and isinstance(v.func, ast.Name) and v.func.id == 'staticmethod' and len(v.args) == 1 and not v.keywords
                target = v.args[0] if static else v
                if isinstance(target, ast.Name) and target.id in ci.mod.funcs and name not in ci.methods:
                    node = _copy.deepcopy(ci.mod.funcs[target.id])
                    node.name = name
                    if static:
                        node.decorator_list = [ast.copy_location(ast.Name(id='staticmethod', ctx=ast.Load()), node)] + list(node.decorator_list)
                    f = self._add_func(ci.mod, node, ci.name + '.' + name, ci, None)
                    f.alias_of = target.id
                    ci.methods[name] = f
                    del ci.class_assigns[name]
        for ci in self.classes.values():
            for b in ci.node.bases:
                r = self.resolve(ci.mod, b)
                if r and r[0] == 'class':
                    ci.bases.append(r[1])
                else:
                    ci.ext_bases.append(self.dotted(ci.mod, b) or norm(b))
        for ci in self.classes.values():
            self.mro(ci)

    def _add_func(self, m, node, qualname, cls, parent):
        f = Func(m, node, qualname, cls, parent)
        self.funcs.append(f)
        for sub in self._direct_defs(node):
            self._add_func(m, sub, qualname + '.' + sub.name, cls, f)
        return f

    @staticmethod
    def _direct_defs(node):
        """function definitions nested directly (not through another def/class) in node's body."""
        out = []
        stack = list(ast.iter_child_nodes(node))
        while stack:
            n = stack.pop()
            if isinstance(n, (ast.FunctionDef, ast.AsyncFunctionDef)):
                out.append(n)
            elif isinstance(n, (ast.ClassDef, ast.Lambda)):
                continue
            else:
                stack.extend(ast.iter_child_nodes(n))
        return sorted(out, key=lambda x: x.lineno)

    def _class_members(self, ci):
        for n in ci.node.body:
            if isinstance(n, (ast.FunctionDef, ast.AsyncFunctionDef)):
                f = self._add_func(ci.mod, n, ci.name + '.' + n.name, ci, None)
                decs = [norm(d) for d in n.decorator_list]
                if any(d.endswith('.setter') for d in decs):
                    ci.setters[n.name] = f
                elif 'property' in decs:
                    ci.getters[n.name] = f
                    ci.methods[n.name] = f
                else:
                    ci.methods[n.name] = f
            elif isinstance(n, ast.Assign):
                for t_ in n.targets:
                    if isinstance(t_, ast.Name):
                        ci.class_assigns[t_.id] = n.value
                    elif isinstance(t_, (ast.Tuple, ast.List)) and isinstance(n.value, (ast.Tuple, ast.List)) and len(t_.elts) == len(n.value.elts):
                        for x_, y_ in zip(t_.elts, n.value.elts):
                            if isinstance(x_, ast.Name):
                                ci.class_assigns[x_.id] = y_
            elif isinstance(n, ast.AnnAssign) and isinstance(n.target, ast.Name) and n.value is not None:
                ci.class_assigns[n.target.id] = n.value

    # ------------------------------------------------------------------ resolution
    def lookup(self, m, name, seen=()):
        """Resolve a module-level name of module m.

        Returns ('class', ClassInfo) | ('func', Func) | ('mod', Module) | ('ext', dotted) | ('value', Module, node) | None
        """
        if (m.name, name) in seen:
            return None
        seen = seen + ((m.name, name),)
        if name in m.classes:
            return ('class', self.classes[f'{m.name}:{name}'])
        if name in m.funcs:
            return ('func', self.func(m.name, name))
        if name in m.assigns:
            v = m.assigns[name]
            r = self.resolve(m, v, seen)
            if r and r[0] in ('class', 'func', 'mod', 'ext'):
                return r
            return ('value', m, v)
        b = m.names.get(name)
        if b:
            if b[0] == 'mod':
                return ('mod', self.mods[b[1]]) if b[1] in self.mods else ('ext', b[1])
            if b[0] == 'obj':
                return self.lookup(self.mods[b[1]], b[2], seen)
            if b[0] == 'ext':
                return ('ext', b[1])
        for s in m.stars:
            r = self.lookup(self.mods[s], name, seen)
            if r:
                return r
        if m.is_pkg and m.name + '.' + name in self.mods:
            return ('mod', self.mods[m.name + '.' + name])
        return None

    def resolve(self, m, e, seen=()):
        """Resolve a Name / dotted Attribute expression evaluated at module level of m."""
        if isinstance(e, ast.Name):
            return self.lookup(m, e.id, seen)
        if isinstance(e, ast.Attribute):
            base = self.resolve(m, e.value, seen)
            if base is None:
                return None
            if base[0] == 'mod':
                return self.lookup(base[1], e.attr, seen)
            if base[0] == 'ext':
                return ('ext', base[1] + '.' + e.attr)
            if base[0] == 'class':
                f = self.resolve_method(base[1], e.attr)
                if f:
                    return ('func', f)
                v = self.class_attr(base[1], e.attr)
                if v is not None:
                    return ('value', v[0].mod, v[1])
            return None
        return None

    def dotted(self, m, e):
        """Canonical dotted name of a callee/expression if resolvable, else None."""
        r = self.resolve(m, e)
        if r is None:
            return None
        if r[0] == 'ext':
            return r[1]
        if r[0] == 'func':
            return r[1].mod.name + '.' + r[1].qualname
        if r[0] == 'class':
            return r[1].mod.name + '.' + r[1].name
        if r[0] == 'mod':
            return r[1].name
        return None

    def func(self, modname, qualname):
        for f in self.funcs:
            if f.mod.name == modname and f.qualname == qualname:
                return f
        return None

    def need_func(self, modname, qualname):
        f = self.func(modname, qualname)
        if f is None:
            raise AnalysisError(f'anchor function {modname}:{qualname} not found')
        return f

    def need_class(self, modname, name):
        ci = self.classes.get(f'{modname}:{name}')
        if ci is None:
            raise AnalysisError(f'anchor class {modname}:{name} not found')
        return ci

    def need_mod(self, modname):
        m = self.mods.get(modname)
        if m is None:
            raise AnalysisError(f'anchor module {modname} not found')
        return m

    # ------------------------------------------------------------------ classes
    def mro(self, ci, _stack=()):
        if ci.mro is not None:
            return ci.mro
        if ci in _stack:
            raise AnalysisError(f'inheritance cycle at {ci.key}')
        seqs = [list(self.mro(b, _stack + (ci,))) for b in ci.bases] + [list(ci.bases)]
        res = [ci]
        while any(seqs):
            for s in seqs:
                if not s:
                    continue
                h = s[0]
                if not any(h in t[1:] for t in seqs):
                    break
            else:
                raise AnalysisError(f'no consistent MRO for {ci.key}')
            res.append(h)
            for t in seqs:
                if t and t[0] is h:
                    del t[0]
        ci.mro = res
        return res

    def resolve_method(self, ci, name, after=None):
        """First definition of method `name` along the MRO of ci (after class `after` for super())."""
        seq = self.mro(ci)
        start = 0
        if after is not None:
            for i, c in enumerate(seq):
                if c is after:
                    start = i + 1
                    break
            else:
                return None
        for c in seq[start:]:
            if name in c.methods:
                return c.methods[name]
        return None

    def resolve_setter(self, ci, name):
        for c in self.mro(ci):
            if name in c.setters:
                return c.setters[name]
            if name in c.methods and name not in c.getters:
                return None
        return None

    def resolve_getter(self, ci, name):
        for c in self.mro(ci):
            if name in c.getters:
                return c.getters[name]
        return None

    def class_attr(self, ci, name):
        for c in self.mro(ci):
            if name in c.class_assigns:
                return (c, c.class_assigns[name])
        return None

    def subclasses_of(self, base, strict=False):
        out = []
        for ci in self.classes.values():
            if base in self.mro(ci) and not (strict and ci is base):
                out.append(ci)
        return sorted(out, key=lambda c: c.key)

    def is_abstract(self, f):
        return any('abstractmethod' in norm(d) for d in f.node.decorator_list)

    def ext_ancestors(self, ci):
        out = []
        for c in self.mro(ci):
            out.extend(c.ext_bases)
        return out

    # ------------------------------------------------------------------ decorators
    def decorators(self, f):
        """[(dotted-or-text, Call node or None)] for a function's decorators."""
        out = []
        for d in f.node.decorator_list:
            call = d if isinstance(d, ast.Call) else None
            target = d.func if call else d
            name = self.dotted(f.mod, target) or norm(target)
            out.append((name, call))
        return out

    def numba_kind(self, f):
        """'njit' | 'vectorize' | None, with the decorator Call (or None)."""
        for name, call in self.decorators(f):
            last = name.split('.')[-1]
            if name.startswith('numba') and last in ('njit', 'jit'):
                return 'njit', call
            if name.startswith('numba') and last in ('vectorize', 'guvectorize'):
                return 'vectorize', call
        return None, None

    # ------------------------------------------------------------------ misc helpers
    def funcs_in(self, modname):
        return [f for f in self.funcs if f.mod.name == modname]

    def methods_closure(self, ci):
        """name -> Func for every method visible on ci (first along the MRO)."""
        out = {}
        for c in self.mro(ci):
            for n, f in c.methods.items():
                out.setdefault(n, f)
        return out


def self_attr(node, selfname='self'):
    """attribute name if node is `self.X` (possibly under subscripts), else None."""
    while isinstance(node, ast.Subscript):
        node = node.value
    if isinstance(node, ast.Attribute) and isinstance(node.value, ast.Name) and node.value.id == selfname:
        return node.attr
    return None


def root_name(node):
    """innermost Name of a Subscript/Attribute chain, else None."""
    while isinstance(node, (ast.Subscript, ast.Attribute, ast.Starred)):
        node = node.value
    return node.id if isinstance(node, ast.Name) else None


def call_name(call):
    return norm(call.func) if isinstance(call, ast.Call) else None


def kw(call, name, default=None):
    for k in call.keywords:
        if k.arg == name:
            return k.value
    return default


def const_value(node):
    if isinstance(node, ast.Constant):
        return node.value
    if isinstance(node, ast.UnaryOp) and isinstance(node.op, ast.USub) and isinstance(node.operand, ast.Constant):
        return -node.operand.value
    return None
