"""Shared rule: results that depend on a division pass through an inf -> NaN mapping before they are returned."""
import ast

from .model import norm
from . import astutil


def is_sanitiser(st, name):
    """`name[np.isinf(name)] = np.nan` | `name[~np.isfinite(name)] = np.nan` | `name = np.where(np.isinf(name), np.nan, name)`"""
    if isinstance(st, ast.Assign) and len(st.targets) == 1:
        t, v = st.targets[0], st.value
        if isinstance(t, ast.Subscript) and isinstance(t.value, ast.Name) and t.value.id == name:
            m = norm(t.slice).replace(' ', '')
            isnan_rhs = norm(v).split('.')[-1].lower() == 'nan'
            if isnan_rhs and (m.endswith(f'isinf({name})') or m.endswith(f'isfinite({name})') and m.startswith('~')):
                return True
        if isinstance(t, ast.Name) and t.id == name and isinstance(v, ast.Call) and norm(v.func).split('.')[-1] == 'where' and len(v.args) == 3:
            c = norm(v.args[0]).replace(' ', '')
            if c.endswith(f'isinf({name})') and norm(v.args[1]).split('.')[-1].lower() == 'nan' and norm(v.args[2]) == name:
                return True
    return False


def block_of(fnode, st):
    """(list of statements, index) of the block that directly contains st"""
    for n in ast.walk(fnode):
        for field in ('body', 'orelse', 'finalbody'):
            b = getattr(n, field, None)
            if isinstance(b, list) and any(x is st for x in b):
                return b, [i for i, x in enumerate(b) if x is st][0]
    return None, None


def sanitised_at(fnode, use_stmt, name):
    """is `name` sanitised between its last plain (re)definition and use_stmt, within use_stmt's block?"""
    block, idx = block_of(fnode, use_stmt)
    if block is None:
        return False
    for st in reversed(block[:idx]):
        if is_sanitiser(st, name):
            return True
        if isinstance(st, ast.Assign) and any(isinstance(t, ast.Name) and t.id == name for t in st.targets):
            return False
        if isinstance(st, ast.AugAssign) and isinstance(st.target, ast.Name) and st.target.id == name:
            return False
    return False


def judge_compute(f):
    """-> [(status, node, detail)] for a `_compute`-like function whose result depends on divisions."""
    out = []
    has_div = any(isinstance(n, ast.BinOp) and isinstance(n.op, ast.Div) for n in ast.walk(f.node)) or \
        any(isinstance(n, ast.Call) and isinstance(n.func, ast.Attribute) and n.func.attr == '_compute_metric' for n in ast.walk(f.node))
    if not has_div:
        return out, False
    rets = [n for n in ast.walk(f.node) if isinstance(n, ast.Return) and n.value is not None]
    for r in rets:
        v = r.value
        if not isinstance(v, ast.Name):
            out.append(('bad', r, f'`{norm(r)[:70]}` returns a ratio directly: an undefined entry (zero denominator) comes out as +/-inf, not NaN'))
            continue
        name = v.id
        if sanitised_at(f.node, r, name):
            out.append(('ok', r, f'`{name}` passes through the inf -> NaN mapping before it is returned'))
            continue
        # result buffer filled piece by piece
        stores = [n for n in ast.walk(f.node) if isinstance(n, ast.Assign) and isinstance(n.targets[0], ast.Subscript)
                  and isinstance(n.targets[0].value, ast.Name) and n.targets[0].value.id == name]
        allocs = [n for n in ast.walk(f.node) if isinstance(n, ast.Assign) and isinstance(n.targets[0], ast.Name) and n.targets[0].id == name]
        buffer = allocs and all(isinstance(a.value, ast.Call) and norm(a.value.func).split('.')[-1] in ('empty', 'zeros') for a in allocs)
        if buffer and stores:
            for s in stores:
                pieces = [n.id for n in ast.walk(s.value) if isinstance(n, ast.Name) and isinstance(n.ctx, ast.Load)]
                locals_ = [p for p in pieces if any(isinstance(a, ast.Assign) and isinstance(a.targets[0], ast.Name) and a.targets[0].id == p
                                                    for a in ast.walk(f.node))]
                if locals_ and all(sanitised_at(f.node, s, p) for p in locals_):
                    out.append(('ok', s, f'piece `{locals_[0]}` is mapped inf -> NaN before it is stored into `{name}`'))
                else:
                    out.append(('bad', s, f'`{norm(s)[:70]}` stores a ratio into the result without the inf -> NaN mapping'))
        else:
            out.append(('bad', r, f'`{name}` depends on a division and is returned without the inf -> NaN mapping its sibling computations apply'))
    return out, True
