"""Shared rule: results that depend on a division pass through an inf -> NaN mapping before they are returned."""
import ast

from .model import norm
from . import astutil


def is_sanitiser(st, name):
    """`name[np.isinf(name)] = np.nan` | `name[~np.isfinite(name)] = np.nan` | `name = np.where(np.isinf(name), np.nan, name)`"""
    if isinstance(st, ast.Assign) and len(st.targets) == 1:
        t, v = st.targets[0], st.value
        if isinstance(t, ast.Subscript) and isinstance(t.value, ast.Name) and t.value.id == name:
            m = norm(t.slice).replace(' ', '')
            isnan_rhs = is_nan_expr(v)
            if isnan_rhs and (m.endswith(f'isinf({name})') or m.endswith(f'isfinite({name})') and m.startswith('~')):
                return True
        if isinstance(t, ast.Name) and t.id == name and isinstance(v, ast.Call) and norm(v.func).split('.')[-1] == 'where' and len(v.args) == 3:
            c = norm(v.args[0]).replace(' ', '')
            if c.endswith(f'isinf({name})') and is_nan_expr(v.args[1]) and norm(v.args[2]) == name:
                return True
    return False


def block_of(fnode, st):
    """(list of statements, index) of the block that directly contains st"""
    for n in ast.walk(fnode):
        for field in ('body', 'orelse', 'finalbody'):
            b = getattr(n, field, None)
            if isinstance(b, list) and any(x is st for x in b):
                return b, [i for i, x in enumerate(b) if x is st][0]
    return None, None


def sanitised_at(fnode, use_stmt, name):
    """is `name` sanitised between its last plain (re)definition and use_stmt, within use_stmt's block?"""
    block, idx = block_of(fnode, use_stmt)
    if block is None:
        return False
    for st in reversed(block[:idx]):
        if is_sanitiser(st, name):
            return True
        if isinstance(st, ast.Assign) and any(isinstance(t, ast.Name) and t.id == name for t in st.targets):
            return False
        if isinstance(st, ast.AugAssign) and isinstance(st.target, ast.Name) and st.target.id == name:
            return False
    return False


MAYINF, CLEAN = 'mayinf', 'clean'
LOSES_INF = {'clip', 'minimum', 'maximum', 'fmin', 'fmax', 'nan_to_num', 'sign', 'tanh', 'arctan', 'isfinite_where'}


def is_nan_expr(e):
    """np.nan / numpy.nan / float('nan') / math.nan, possibly wrapped in a one-argument cast (`x.dtype.type(np.nan)`, `np.float32(np.nan)`)"""
    if isinstance(e, (ast.Name, ast.Attribute)):
        return norm(e).split('.')[-1].lower() == 'nan'
    if isinstance(e, ast.Call) and len(e.args) == 1 and not e.keywords:
        a = e.args[0]
        if isinstance(a, ast.Constant) and isinstance(a.value, str) and a.value.lower() == 'nan':
            return norm(e.func) == 'float'
        return is_nan_expr(a)
    return False


def _isinf_of(e):
    """text of X when e is `isinf(X)` / `~isfinite(X)` / `np.logical_not(isfinite(X))`, else None"""
    if isinstance(e, ast.Call) and norm(e.func).split('.')[-1] == 'isinf' and len(e.args) == 1:
        return norm(e.args[0])
    if isinstance(e, ast.UnaryOp) and isinstance(e.op, ast.Invert) and isinstance(e.operand, ast.Call) and norm(e.operand.func).split('.')[-1] == 'isfinite' and len(e.operand.args) == 1:
        return norm(e.operand.args[0])
    return None


class Taint:
    """which values may hold +/-inf produced by a division: a small forward dataflow (names -> mayinf / clean)"""

    def __init__(self, fnode, prog=None, func=None, depth=0):
        self.fnode = fnode
        self.prog, self.func, self.depth = prog, func, depth
        self.env = {}
        self.out = []
        self.has_div = False

    def ev(self, e):
        if e is None:
            return CLEAN
        if isinstance(e, ast.Name):
            return self.env.get(e.id, CLEAN)
        if isinstance(e, ast.BinOp):
            l, r = self.ev(e.left), self.ev(e.right)
            if isinstance(e.op, (ast.Div, ast.FloorDiv)):
                self.has_div = True
                return MAYINF
            return MAYINF if MAYINF in (l, r) else CLEAN
        if isinstance(e, ast.UnaryOp):
            return self.ev(e.operand)
        if isinstance(e, ast.Call):
            name = norm(e.func).split('.')[-1]
            if name == 'where' and len(e.args) == 3:
                x = _isinf_of(e.args[0])
                nan1 = is_nan_expr(e.args[1])
                nan2 = is_nan_expr(e.args[2])
                if x is not None and nan1 and norm(e.args[2]) == x:
                    self.ev(e.args[2])
                    return CLEAN
                xf = None
                if isinstance(e.args[0], ast.Call) and norm(e.args[0].func).split('.')[-1] == 'isfinite' and len(e.args[0].args) == 1:
                    xf = norm(e.args[0].args[0])
                if xf is not None and nan2 and norm(e.args[1]) == xf:
                    self.ev(e.args[1])
                    return CLEAN
            if name in LOSES_INF:
                vals_ = [self.ev(a) for a in e.args] + [self.ev(k.value) for k in e.keywords if k.arg != 'out']
                recv = self.ev(e.func.value) if isinstance(e.func, ast.Attribute) and norm(e.func.value) not in ('_np', 'np', 'numpy') else CLEAN
                if MAYINF in vals_ or recv == MAYINF:
                    self.out.append(('bad', e, f'`{norm(e)[:70]}` turns an undefined entry (+/-inf from a zero denominator) into a finite value before it can be mapped to NaN'))
                    self.lost = True
                out_ = next((k.value for k in e.keywords if k.arg == 'out'), None)
                if isinstance(out_, ast.Name):
                    self.env[out_.id] = CLEAN
                return CLEAN
            if name == '_compute_metric' or name in ('divide', 'true_divide'):
                self.has_div = True
                for a in e.args:
                    self.ev(a)
                w_ = next((k.value for k in e.keywords if k.arg == 'where'), None)
                if w_ is not None and not (isinstance(w_, ast.Constant) and w_.value is True):
                    # a masked division leaves the entries the mask excludes at whatever `out` held: an undefined quotient (empty
                    # class, constant column: 0/0) becomes the finite prefilled value instead of NaN - unless out was filled with NaN
                    o_ = next((k.value for k in e.keywords if k.arg == 'out'), None)
                    nan_filled = False
                    if isinstance(o_, ast.Name):
                        for n_ in ast.walk(self.fnode):
                            if isinstance(n_, ast.Assign) and len(n_.targets) == 1 and isinstance(n_.targets[0], ast.Name) and n_.targets[0].id == o_.id and isinstance(n_.value, ast.Call) \
                                    and norm(n_.value.func).split('.')[-1] in ('full', 'full_like') and len(n_.value.args) >= 2 and norm(n_.value.args[1]).split('.')[-1].lower() == 'nan':
                                nan_filled = True
                    if not nan_filled:
                        self.out.append(('bad', e, f'`{norm(e)[:80]}` divides only where the mask holds: where the denominator is zero (an empty class, no trace) the result keeps the value `out` was '
                                         'prefilled with - a finite number where the definition is undefined (NaN)'))
                        self.lost = True
                return MAYINF
            if self.prog is not None and self.func is not None and self.depth < 2 and isinstance(e.func, ast.Name):
                r = self.prog.resolve(self.func.mod, e.func)
                if r and r[0] == 'func' and r[1].mod is self.func.mod and not e.keywords and len(e.args) == len(r[1].params):
                    callee = r[1]
                    sub = Taint(callee.node, self.prog, callee, self.depth + 1)
                    sub.env = {p_: self.ev(a) for p_, a in zip(callee.params, e.args)}
                    sub.block(callee.node.body)
                    self.has_div = self.has_div or sub.has_div
                    rets = [o for o in sub.out if isinstance(o[1], ast.Return)]
                    if rets:
                        return MAYINF if any(o[0] == 'bad' for o in rets) else CLEAN
            vals = [self.ev(a) for a in e.args] + [self.ev(k.value) for k in e.keywords]
            if isinstance(e.func, ast.Attribute) and not norm(e.func.value) in ('_np', 'np', 'numpy'):
                vals.append(self.ev(e.func.value))
            return MAYINF if MAYINF in vals else CLEAN
        if isinstance(e, ast.Attribute):
            return self.ev(e.value)
        if isinstance(e, ast.Subscript):
            return self.ev(e.value)
        if isinstance(e, (ast.Tuple, ast.List)):
            vs = [self.ev(x) for x in e.elts]
            return MAYINF if MAYINF in vs else CLEAN
        if isinstance(e, ast.IfExp):
            vs = [self.ev(e.body), self.ev(e.orelse)]
            return MAYINF if MAYINF in vs else CLEAN
        return CLEAN

    def block(self, stmts):
        for st in stmts:
            self.stmt(st)

    def stmt(self, st):
        if isinstance(st, ast.Assign) and len(st.targets) == 1:
            t, v = st.targets[0], st.value
            if isinstance(t, ast.Subscript) and isinstance(t.value, ast.Name):
                x = _isinf_of(t.slice)
                if x == t.value.id and is_nan_expr(v):
                    self.env[t.value.id] = CLEAN            # x[isinf(x)] = nan
                    return
                val = self.ev(v)
                if val == MAYINF:
                    self.env[t.value.id] = MAYINF
                    self.out.append(('bad', st, f'`{norm(st)[:70]}` stores a ratio into the result without the inf -> NaN mapping'))
                elif self.has_div and any(isinstance(n, ast.Name) and n.id in self.env for n in ast.walk(v)):
                    self.out.append(('ok', st, f'piece stored into `{t.value.id}` after the inf -> NaN mapping'))
                return
            if isinstance(t, ast.Name):
                self.env[t.id] = self.ev(v)
                return
            if isinstance(t, ast.Tuple):
                val = self.ev(v)
                for x in t.elts:
                    if isinstance(x, ast.Name):
                        self.env[x.id] = val
                return
            self.ev(v)
        elif isinstance(st, ast.Expr) and isinstance(st.value, ast.Call) and norm(st.value.func).split('.')[-1] in ('copyto', 'putmask', 'place') and st.value.args:
            # np.copyto(x, nan, where=isinf(x)) / np.putmask(x, isinf(x), nan) / np.place(x, isinf(x), nan): the in-place forms of the mapping
            c = st.value
            nm = norm(c.func).split('.')[-1]
            tgt = c.args[0]
            if nm == 'copyto':
                val_ = c.args[1] if len(c.args) > 1 else None
                mask_ = next((k.value for k in c.keywords if k.arg == 'where'), None)
            else:
                mask_ = c.args[1] if len(c.args) > 1 else None
                val_ = c.args[2] if len(c.args) > 2 else None
            if isinstance(tgt, ast.Name) and val_ is not None and mask_ is not None and is_nan_expr(val_) and _isinf_of(mask_) == tgt.id:
                self.env[tgt.id] = CLEAN
            else:
                self.ev(st.value)
        elif isinstance(st, ast.AugAssign):
            val = self.ev(st.value)
            if isinstance(st.op, (ast.Div, ast.FloorDiv)):
                self.has_div = True
                val = MAYINF
            if isinstance(st.target, ast.Name):
                if val == MAYINF:
                    self.env[st.target.id] = MAYINF
        elif isinstance(st, (ast.For, ast.While)):
            # two passes: a value made dirty late in the body reaches the top of the next iteration
            self.block(st.body)
            self.out = [o for o in self.out if o[0] == 'bad'] and self.out
            self.block(st.body)
            self.block(st.orelse)
        elif isinstance(st, ast.If):
            e0 = dict(self.env)
            self.block(st.body)
            e1 = self.env
            self.env = dict(e0)
            self.block(st.orelse)
            for k in set(e1) | set(self.env):
                if MAYINF in (e1.get(k), self.env.get(k)):
                    self.env[k] = MAYINF
        elif isinstance(st, ast.Try):
            self.block(st.body)
            for h in st.handlers:
                self.block(h.body)
            self.block(st.finalbody)
        elif isinstance(st, ast.With):
            self.block(st.body)
        elif isinstance(st, ast.Return) and st.value is not None:
            val = self.ev(st.value)
            if val == MAYINF:
                self.out.append(('bad', st, f'`{norm(st)[:70]}` returns a value that depends on a division without the inf -> NaN mapping: an undefined entry (zero denominator) '
                                            f'comes out as +/-inf, not NaN'))
            else:
                self.out.append(('ok', st, f'`{norm(st)[:50]}`: every ratio it depends on passed through the inf -> NaN mapping'))
        elif isinstance(st, ast.Expr):
            self.ev(st.value)


def judge_compute(f, prog=None):
    """-> ([(status, node, detail)], has_division) for a `_compute`-like function"""
    t = Taint(f.node, prog, f)
    t.block(f.node.body)
    seen = set()
    out = []
    for o in t.out:
        k = (o[0], id(o[1]))
        if k not in seen:
            seen.add(k)
            out.append(o)
    # a statement reported bad in one pass and ok in another is bad
    bad_nodes = {id(o[1]) for o in out if o[0] == 'bad'}
    out = [o for o in out if o[0] == 'bad' or id(o[1]) not in bad_nodes]
    return out, t.has_div
