"""IntEnum members and literal step lists read from the syntax tree."""
import ast

from .model import AnalysisError, norm, const_value


def enum_members(prog, modname, clsname):
    ci = prog.need_class(modname, clsname)
    out = {}
    for name, v in ci.class_assigns.items():
        c = const_value(v)
        if isinstance(c, int):
            out[name] = c
    if not out:
        raise AnalysisError(f'enum {modname}.{clsname} has no integer members')
    vals = sorted(out.values())
    if vals != list(range(len(vals))):
        raise AnalysisError(f'enum {clsname} values are not 0..n-1: {vals}')
    return out


def plain_members(prog, ci):
    """{name: value} of a plain `enum.Enum` whose members are bound to distinct constants (str, int, tuples of them) or
    `enum.auto()`; None when a member value is anything else (IntEnum classes are read by enum_members)"""
    out = {}
    auto = 0
    for name, v in ci.class_assigns.items():
        if name.startswith('_'):
            continue
        if isinstance(v, ast.Call) and norm(v.func).split('.')[-1] == 'auto' and not v.args:
            auto += 1
            out[name] = ('auto', auto)
            continue
        try:
            c = ast.literal_eval(v)
        except Exception:
            return None
        out[name] = c
    if not out or len({repr(x) for x in out.values()}) != len(out):
        return None            # aliases (two names, one value) are one member: not modelled
    if all(isinstance(c, int) and not isinstance(c, bool) for c in out.values()):
        return None            # integer valued: the IntEnum reading applies
    return out


def eval_list(prog, mod, node, scope, enum_name):
    """evaluate a class/module level list expression made of list literals, + concatenation, names of other lists,
    None and <Enum>.<MEMBER> / resolved function names  ->  python list of member names / None / dotted callee names"""
    if isinstance(node, (ast.List, ast.Tuple)):
        out = []
        for e in node.elts:
            out.append(eval_item(prog, mod, e, enum_name))
        return out
    if isinstance(node, ast.Call) and isinstance(node.func, ast.Name) and node.func.id in ('list', 'tuple') and len(node.args) == 1 and not node.keywords:
        return eval_list(prog, mod, node.args[0], scope, enum_name)
    if isinstance(node, ast.BinOp) and isinstance(node.op, ast.Add):
        return eval_list(prog, mod, node.left, scope, enum_name) + eval_list(prog, mod, node.right, scope, enum_name)
    if isinstance(node, ast.Name) and node.id in scope:
        return eval_list(prog, mod, scope[node.id], scope, enum_name)
    if isinstance(node, ast.Attribute) and isinstance(node.value, ast.Name) and node.value.id == 'self' and node.attr in scope:
        return eval_list(prog, mod, scope[node.attr], scope, enum_name)
    raise AnalysisError(f'step list expression `{norm(node)[:60]}` is not a literal list / concatenation')


def eval_item(prog, mod, e, enum_name):
    if isinstance(e, ast.Constant) and e.value is None:
        return None
    if isinstance(e, ast.Attribute) and isinstance(e.value, ast.Name) and e.value.id == enum_name:
        return e.attr
    d = prog.dotted(mod, e) if isinstance(e, (ast.Name, ast.Attribute)) else None
    if d:
        r = prog.resolve(mod, e)
        if r and r[0] == 'func':
            return r[1].mod.name + '.' + r[1].qualname
        return d
    raise AnalysisError(f'step list item `{norm(e)[:40]}` not understood')
