"""Axis-layout interpreter for "group k consecutive words along one axis" code (HammingWeight._compute).

The function is interpreted over axis *labels*, never over values: the input array has rank r (1..4 enumerated) and its word
axis is at the concrete position `axis` (0..r-1 enumerated); every other axis carries its own label.  Integer expressions are
polynomials over the symbols k (= nb_words), G (= number of groups = W // k), W and the loop index.  Supported idioms:
swapaxes / moveaxis / transpose-free reshapes that split the leading word axis C-order into (G, k), first-axis slices (whole
prefix, or the i-th group [i*k, (i+1)*k)), sums over one axis, allocation from a shape list, element stores `out[i] = ...`
inside `for i in range(G)`.  Anything else raises Unknown (undecided, never a verdict).  Events record definite contradictions:
a sum over an axis that is not the within-group axis, a group slice that is not [i*k, (i+1)*k), a store whose value layout
differs from the slot, a result whose other axes moved.
"""
import ast

from .model import norm, const_value


class Unknown(Exception):
    pass


# ------------------------------------------------------------------------------------------------------------- polynomials
def P(x):
    if isinstance(x, int):
        return {(): x} if x else {}
    return {(x,): 1}


def padd(a, b, s=1):
    out = dict(a)
    for m, c in b.items():
        out[m] = out.get(m, 0) + s * c
        if out[m] == 0:
            del out[m]
    return out


def pmul(a, b):
    out = {}
    for m1, c1 in a.items():
        for m2, c2 in b.items():
            m = tuple(sorted(m1 + m2))
            out[m] = out.get(m, 0) + c1 * c2
            if out[m] == 0:
                del out[m]
    return out


def pnorm(p):
    """W is G*k when W is a multiple of k; the canonical form replaces G*k by W (grouping drops the incomplete tail, so every
    comparison here is about whole groups)"""
    out = {}
    for m, c in p.items():
        m = list(m)
        while 'G' in m and 'k' in m:
            m.remove('G')
            m.remove('k')
            m.append('W')
        m = tuple(sorted(m))
        out[m] = out.get(m, 0) + c
        if out[m] == 0:
            del out[m]
    return out


def peq(a, b):
    return pnorm(a) == pnorm(b)


def pint(p):
    if not p:
        return 0
    if set(p) == {()}:
        return p[()]
    return None


def pshow(p):
    if not p:
        return '0'
    return ' + '.join((f'{c}*' if c != 1 or not m else '') + '*'.join(m) if m else str(c) for m, c in sorted(p.items()))


class Arr:
    def __init__(self, labels, origin, grouped=False):
        self.labels = list(labels)
        self.origin = origin          # 'data' | 'hw' | 'zeros' | 'derived'
        self.grouped = grouped        # holds sums of k consecutive words along its G axis

    def __repr__(self):
        return '(' + ','.join(self.labels) + ')'


class Shp:
    def __init__(self, dims):
        self.dims = list(dims)      # each a polynomial


class Interp:
    def __init__(self, prog, func, data, axisname, rank, axis, dispatch_call, nbw='self.nb_words', take_branch=True, test_value=None):
        self.prog = prog
        self.test_value = test_value
        self.f = func
        self.rank, self.axis = rank, axis
        self.nbw = nbw
        self.take = take_branch
        self.dispatch = dispatch_call
        self.labels = [f'd{i}' if i != axis else 'W' for i in range(rank)]
        self.env = {data: Arr(self.labels, 'data'), axisname: P(axis)}
        self.events = []          # (kind 'bad'|'ok', node, text)
        self.loopvar = None
        self.ret = None

    # ---------------------------------------------------------------- helpers
    def bad(self, node, text):
        self.events.append(('bad', node, text))

    def ok(self, node, text):
        self.events.append(('ok', node, text))

    def numpy_name(self, fn):
        d = self.prog.dotted(self.f.mod, fn) if isinstance(fn, (ast.Name, ast.Attribute)) else None
        return d.split('.')[-1] if d and d.startswith('numpy') else None

    def ax(self, v, n):
        a = pint(v) if isinstance(v, dict) else None
        if a is None:
            raise Unknown('axis argument is not a known integer')
        if a < 0:
            a += n
        if not 0 <= a < n:
            raise Unknown(f'axis {a} out of range for rank {n}')
        return a

    # ---------------------------------------------------------------- statements
    def run(self):
        self.block(self.f.node.body)
        if self.ret is None:
            raise Unknown('no return reached')
        return self.ret

    def block(self, stmts):
        for st in stmts:
            if self.ret is not None:
                return
            self.stmt(st)

    def stmt(self, st):
        if isinstance(st, ast.Expr) and isinstance(st.value, ast.Constant):
            return
        if isinstance(st, ast.If):
            if st.body and isinstance(st.body[-1], ast.Raise) and not st.orelse:
                return        # argument validation
            if self.nbw in norm(st.test):
                # `take` = the grouping case (nb_words >= 2); which arm that is follows from the value of the test
                v = self.test_value(st.test, self.take) if self.test_value is not None else self.take
                self.block(st.body if v else st.orelse)
                return
            raise Unknown(f'branch `{norm(st.test)[:50]}`')
        if isinstance(st, ast.Return):
            self.ret = self.ev(st.value)
            return
        if isinstance(st, ast.Assign) and len(st.targets) == 1:
            t = st.targets[0]
            if isinstance(t, ast.Name):
                self.env[t.id] = self.ev(st.value)
                return
            if isinstance(t, ast.Subscript) and isinstance(t.value, ast.Name):
                self.store(st, t)
                return
        if isinstance(st, ast.AugAssign) and isinstance(st.target, ast.Subscript) and isinstance(st.target.value, ast.Name) and isinstance(st.op, ast.Add):
            self.store(st, st.target)
            return
        if isinstance(st, ast.For):
            self.loop(st)
            return
        raise Unknown(f'statement `{norm(st)[:60]}`')

    def loop(self, st):
        if not isinstance(st.target, ast.Name) or st.orelse or self.loopvar is not None:
            raise Unknown('loop shape')
        it = st.iter
        if not (isinstance(it, ast.Call) and norm(it.func) == 'range' and len(it.args) == 1):
            raise Unknown(f'loop range `{norm(it)[:40]}`')
        n = self.ev(it.args[0])
        if not isinstance(n, dict):
            raise Unknown('loop bound')
        if not peq(n, P('G')):
            if peq(n, P('W')) or pint(n) is not None:
                self.bad(st, f'the loop runs over `{norm(it.args[0])}` = {pshow(n)} iterations, not once per group (G = W // k)')
            else:
                raise Unknown(f'loop bound {pshow(n)}')
        self.loopvar = st.target.id
        self.env[self.loopvar] = P('i')
        self.block(st.body)
        del self.env[self.loopvar]
        self.loopvar = None

    def store(self, st, t):
        arr = self.env.get(t.value.id)
        if not isinstance(arr, Arr):
            raise Unknown('store into a non array')
        idx = self.ev(t.slice) if not isinstance(t.slice, (ast.Slice, ast.Tuple)) else None
        if not isinstance(idx, dict):
            raise Unknown(f'store index `{norm(t.slice)[:40]}`')
        val = self.ev(st.value)
        if not isinstance(val, Arr):
            raise Unknown('stored value is not an array')
        if arr.labels[0] != 'G':
            self.bad(st, f'groups are stored along axis {arr.labels[0]} of {arr}, which is not the group axis')
            return
        if self.loopvar is None or not peq(idx, P('i')):
            self.bad(st, f'group i is stored at position `{norm(t.slice)}` = {pshow(idx)}')
            return
        slot = arr.labels[1:]
        if val.labels != slot:
            self.bad(st, f'the value of group i is laid out {val} but the slot `{norm(t)}` is ({",".join(slot)}): the other axes do not line up')
            return
        if not val.grouped:
            self.bad(st, f'`{norm(st.value)[:50]}` is not a sum over one group of k consecutive words')
            return
        b = arr
        while b is not None:
            b.grouped = True
            b = getattr(b, '_base', None)
        self.ok(st, f'group i -> {norm(t)}: slot ({",".join(slot)}) filled with the group sum')

    # ---------------------------------------------------------------- expressions
    def ev(self, e):
        if isinstance(e, ast.Constant):
            if isinstance(e.value, bool) or not isinstance(e.value, int):
                return ('const', e.value)
            return P(e.value)
        if isinstance(e, ast.Name):
            if e.id in self.env:
                return self.env[e.id]
            raise Unknown(f'name {e.id}')
        if isinstance(e, ast.UnaryOp) and isinstance(e.op, ast.USub):
            v = self.ev(e.operand)
            if isinstance(v, dict):
                return pmul(v, P(-1))
            raise Unknown('negation')
        if isinstance(e, ast.Attribute):
            if norm(e) == self.nbw:
                return P('k')
            v = self.ev(e.value)
            if e.attr == 'shape' and isinstance(v, Arr):
                return Shp([P(l) for l in v.labels])
            if e.attr == 'ndim' and isinstance(v, Arr):
                return P(len(v.labels))
            if e.attr == 'T' and isinstance(v, Arr):
                return Arr(v.labels[::-1], 'derived', v.grouped)
            raise Unknown(f'attribute {norm(e)[:40]}')
        if isinstance(e, (ast.Tuple, ast.List)):
            return Shp([self.dim(self.ev(x)) for x in e.elts])
        if isinstance(e, ast.BinOp):
            a, b = self.ev(e.left), self.ev(e.right)
            if isinstance(a, Shp) and isinstance(b, Shp) and isinstance(e.op, ast.Add):
                return Shp(a.dims + b.dims)
            if isinstance(a, dict) and isinstance(b, dict):
                if isinstance(e.op, ast.Add):
                    return padd(a, b)
                if isinstance(e.op, ast.Sub):
                    return padd(a, b, -1)
                if isinstance(e.op, ast.Mult):
                    return pmul(a, b)
                if isinstance(e.op, ast.FloorDiv):
                    if peq(a, P('W')) and peq(b, P('k')):
                        return P('G')
                    if peq(b, P('k')) and pnorm(a) == pnorm(pmul(P('G'), P('k'))):
                        return P('G')
                    ia, ib = pint(a), pint(b)
                    if ia is not None and ib:
                        return P(ia // ib)
                    la = self.try_label(a)
                    if peq(b, P('k')) and la is not None and la.startswith('d'):
                        self.bad(e, f'`{norm(e)[:60]}` counts the groups from the extent of axis {la}, not from the word axis')
                        return P('G')
                raise Unknown(f'arithmetic `{norm(e)[:40]}`')
            raise Unknown(f'operator on `{norm(e)[:40]}`')
        if isinstance(e, ast.ListComp) or isinstance(e, ast.GeneratorExp):
            return self.comp(e)
        if isinstance(e, ast.Subscript):
            return self.subscript(e)
        if isinstance(e, ast.Call):
            return self.call(e)
        raise Unknown(f'expression `{norm(e)[:40]}`')

    def dim(self, v):
        if isinstance(v, dict):
            return v
        raise Unknown('shape entry is not an extent')

    def comp(self, e):
        if len(e.generators) != 1 or e.generators[0].ifs:
            raise Unknown('comprehension')
        g = e.generators[0]
        if not (isinstance(g.iter, ast.Call) and norm(g.iter.func) == 'enumerate' and isinstance(g.target, ast.Tuple) and len(g.target.elts) == 2):
            raise Unknown('comprehension is not over enumerate(shape)')
        src = self.ev(g.iter.args[0])
        if not isinstance(src, Shp):
            raise Unknown('comprehension source is not a shape')
        iv, dv = g.target.elts[0].id, g.target.elts[1].id
        out = []
        saved = dict(self.env)
        for i, d in enumerate(src.dims):
            self.env[iv], self.env[dv] = P(i), d
            out.append(self.dim(self.cond(e.elt)))
        self.env = saved
        return Shp(out)

    def cond(self, e):
        if isinstance(e, ast.IfExp):
            t = e.test
            if isinstance(t, ast.Compare) and len(t.ops) == 1:
                a, b = self.ev(t.left), self.ev(t.comparators[0])
                ia, ib = (pint(a) if isinstance(a, dict) else None), (pint(b) if isinstance(b, dict) else None)
                if ia is None or ib is None:
                    raise Unknown('comprehension test is not on positions')
                if ib < 0:
                    ib += self.rank
                if ia < 0:
                    ia += self.rank
                res = {ast.Eq: ia == ib, ast.NotEq: ia != ib, ast.Lt: ia < ib, ast.Gt: ia > ib, ast.LtE: ia <= ib, ast.GtE: ia >= ib}.get(type(t.ops[0]))
                if res is None:
                    raise Unknown('comparison')
                return self.cond(e.body if res else e.orelse)
            raise Unknown('comprehension test')
        return self.ev(e)

    def subscript(self, e):
        v = self.ev(e.value)
        sl = e.slice
        if isinstance(v, Shp):
            if isinstance(sl, ast.Slice):
                lo = pint(self.ev(sl.lower)) if sl.lower is not None else 0
                hi = pint(self.ev(sl.upper)) if sl.upper is not None else len(v.dims)
                if lo is None or hi is None or sl.step is not None:
                    raise Unknown('shape slice')
                return Shp(v.dims[lo:hi])
            i = self.ev(sl)
            i = pint(i) if isinstance(i, dict) else None
            if i is None or not -len(v.dims) <= i < len(v.dims):
                raise Unknown('shape index')
            return v.dims[i]
        if isinstance(v, Arr):
            if isinstance(sl, ast.Slice) and sl.step is None:
                lo = self.ev(sl.lower) if sl.lower is not None else {}
                hi = self.ev(sl.upper) if sl.upper is not None else None
                if not isinstance(lo, dict) or (hi is not None and not isinstance(hi, dict)):
                    raise Unknown('slice bounds')
                first = v.labels[0]
                if not lo and (hi is None or peq(hi, P(first)) or (first == 'W' and peq(hi, pmul(P('G'), P('k'))))):
                    return Arr(v.labels, v.origin if v.origin != 'data' else 'derived', v.grouped)
                uses_i = any('i' in m for m in list(lo) + list(hi or {}))
                if uses_i:
                    want_lo, want_hi = pmul(P('i'), P('k')), padd(pmul(P('i'), P('k')), P('k'))
                    if first != 'W':
                        self.bad(e, f'`{norm(e)[:60]}` takes group slices along axis {first} of {v}: the word axis is not at the front')
                        return Arr(['Ks'] + v.labels[1:], 'derived')
                    if peq(lo, want_lo) and hi is not None and peq(hi, want_hi):
                        self.ok(e, f'slice [{norm(sl)}] = words [i*k, (i+1)*k) of group i')
                    else:
                        self.bad(e, f'slice [{norm(sl)}] = [{pshow(lo)}, {pshow(hi or {})}) is not group i = [i*k, (i+1)*k): groups overlap, leave gaps or have the wrong width')
                    return Arr(['Ks'] + v.labels[1:], 'derived')
                raise Unknown(f'slice `{norm(sl)[:40]}`')
            raise Unknown(f'index `{norm(sl)[:40]}`')
        raise Unknown(f'subscript `{norm(e)[:40]}`')

    def call(self, e):
        if e is self.dispatch:
            a = self.ev(e.args[0])
            if not isinstance(a, Arr):
                raise Unknown('dispatch argument')
            return Arr(a.labels, 'hw')
        fn = e.func
        np = self.numpy_name(fn)
        kws = {k.arg: k.value for k in e.keywords}
        if np in ('zeros', 'empty'):
            shp = self.ev(e.args[0] if e.args else kws['shape'])
            if isinstance(shp, dict):
                shp = Shp([shp])
            if not isinstance(shp, Shp):
                raise Unknown('allocation shape')
            return Arr([self.label(d) for d in shp.dims], 'zeros')
        if np in ('swapaxes', 'moveaxis', 'sum', 'add.reduce', 'asarray', 'ascontiguousarray', 'copy'):
            v = self.ev(e.args[0])
            rest = e.args[1:]
        elif isinstance(fn, ast.Attribute) and fn.attr in ('swapaxes', 'sum', 'reshape', 'astype', 'copy', 'view') and np is None:
            v = self.ev(fn.value)
            rest = e.args
            np = fn.attr
        elif isinstance(fn, ast.Name) and fn.id == 'len' and e.args:
            v = self.ev(e.args[0])
            if isinstance(v, Arr):
                return P(v.labels[0])
            if isinstance(v, Shp):
                return P(len(v.dims))
            raise Unknown('len')
        elif isinstance(fn, ast.Name) and fn.id in ('tuple', 'list') and len(e.args) == 1:
            return self.ev(e.args[0])
        elif isinstance(fn, ast.Name) and fn.id == 'int' and len(e.args) == 1:
            return self.ev(e.args[0])
        else:
            callee = None
            if isinstance(fn, ast.Name):
                r = self.prog.resolve(self.f.mod, fn)
                if r and r[0] == 'func' and r[1].mod is self.f.mod:
                    callee = r[1]
            elif isinstance(fn, ast.Attribute) and isinstance(fn.value, ast.Name) and fn.value.id == 'self' and self.f.cls is not None:
                callee = self.prog.resolve_method(self.f.cls, fn.attr)
            if callee is None or getattr(self, '_depth', 0) > 3:
                raise Unknown(f'call `{norm(fn)[:40]}`')
            return self.invoke(callee, e)
        if not isinstance(v, Arr):
            raise Unknown(f'{np} of a non array')
        n = len(v.labels)
        if np in ('asarray', 'ascontiguousarray', 'copy', 'astype', 'view'):
            return Arr(v.labels, v.origin if v.origin != 'data' else 'derived', v.grouped)
        if np == 'swapaxes':
            if len(rest) != 2:
                raise Unknown('swapaxes arguments')
            a, b = self.ax(self.ev(rest[0]), n), self.ax(self.ev(rest[1]), n)
            l = list(v.labels)
            l[a], l[b] = l[b], l[a]
            out = Arr(l, v.origin if v.origin != 'data' else 'derived', v.grouped)
            if v.origin == 'zeros':
                self.env_alias(v, out)
            return out
        if np == 'moveaxis':
            if len(rest) != 2:
                raise Unknown('moveaxis arguments')
            a, b = self.ax(self.ev(rest[0]), n), self.ax(self.ev(rest[1]), n)
            l = list(v.labels)
            x = l.pop(a)
            l.insert(b, x)
            return Arr(l, v.origin if v.origin != 'data' else 'derived', v.grouped)
        if np in ('sum', 'add.reduce'):
            axn = kws.get('axis', rest[0] if rest else None)
            if axn is None:
                self.bad(e, f'`{norm(e)[:60]}` sums the whole array, not one group of words')
                return Arr([], 'derived')
            a = self.ax(self.ev(axn), n)
            lab = v.labels[a]
            l = v.labels[:a] + v.labels[a + 1:]
            if lab in ('Ks', 'K'):
                self.ok(e, f'sum over the within-group axis of {v}')
                return Arr(l, 'derived', grouped=True)
            self.bad(e, f'`{norm(e)[:60]}` sums axis {lab} of {v}: not the k words of one group')
            return Arr(l, 'derived', grouped=False)
        if np == 'reshape':
            shp = self.ev(rest[0]) if len(rest) == 1 else Shp([self.dim(self.ev(x)) for x in rest])
            if not isinstance(shp, Shp):
                raise Unknown('reshape target')
            tgt = shp.dims
            if v.labels and v.labels[0] == 'W' and len(tgt) == n + 1 and peq(tgt[0], P('G')) and peq(tgt[1], P('k')) \
                    and all(peq(t, P(l)) for t, l in zip(tgt[2:], v.labels[1:])):
                self.ok(e, f'reshape splits the leading word axis of {v} C-order into (G, k): row g holds words [g*k, (g+1)*k)')
                return Arr(['G', 'K'] + v.labels[1:], 'derived', v.grouped)
            if v.labels and v.labels[0] == 'W' and len(tgt) == n + 1 and peq(tgt[0], P('k')) and peq(tgt[1], P('G')) \
                    and all(peq(t, P(l)) for t, l in zip(tgt[2:], v.labels[1:])):
                self.bad(e, f'reshape splits the word axis of {v} into (k, G): row j holds every k-th... words j*G.., i.e. the groups are strided, not consecutive')
                return Arr(['K', 'G'] + v.labels[1:], 'derived', v.grouped)
            if 'W' in v.labels and v.labels[0] != 'W':
                tl = [self.try_label(t) for t in tgt]
                if tl.count('G') == 1 and tl.count('k') == 1:
                    self.bad(e, f'reshape of {v} into ({",".join(str(x) for x in tl)}): the word axis is not leading, so C-order does not put k consecutive words in one row')
                    return Arr([('K' if x == 'k' else x) for x in tl], 'derived', v.grouped)
            raise Unknown(f'reshape of {v} to ({", ".join(pshow(t) for t in tgt)})')
        raise Unknown(np)

    def invoke(self, callee, e):
        """interpret a helper of the same module / class with its parameters bound to the evaluated arguments"""
        params = [p for p in callee.params]
        static = any(norm(d) == 'staticmethod' for d in callee.node.decorator_list)
        if callee.cls is not None and not static and params and params[0] == 'self':
            params = params[1:]
        new_env = {}
        for i, a in enumerate(e.args):
            if i >= len(params):
                raise Unknown('helper arguments')
            new_env[params[i]] = self.ev(a)
        for k in e.keywords:
            if k.arg is None:
                raise Unknown('helper arguments')
            new_env[k.arg] = self.ev(k.value)
        defaults = callee.node.args.defaults
        dparams = params[len(params) - len(defaults):] if defaults else []
        for p_, d in zip(dparams, defaults):
            if p_ not in new_env:
                new_env[p_] = self.ev(d)
        if set(params) - set(new_env):
            raise Unknown(f'helper {callee.name}: unbound parameters')
        saved = (self.env, self.ret, self.loopvar, self.f, getattr(self, '_depth', 0))
        self.env, self.ret, self.loopvar, self.f, self._depth = new_env, None, None, callee, saved[4] + 1
        try:
            self.block(callee.node.body)
            r = self.ret
        finally:
            self.env, self.ret, self.loopvar, self.f, self._depth = saved
        if r is None:
            raise Unknown(f'helper {callee.name} returns nothing')
        return r

    def env_alias(self, src, view):
        """a view of a freshly allocated array: stores through the view fill the allocation (grouped flag is shared)"""
        view._base = src

    def label(self, d):
        l = self.try_label(d)
        if l is None or l == 'k':
            raise Unknown(f'extent {pshow(d)} is not an axis of the data')
        return l

    def try_label(self, d):
        d = pnorm(d)
        if len(d) == 1:
            (m, c), = d.items()
            if c == 1 and len(m) == 1:
                return m[0]
        return None
