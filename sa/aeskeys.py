"""Symbolic evaluation of the AES key expansion over its complete window domain.

`_expand_forward` / `_expand_backward` are partially evaluated (sa.confinterp) for concrete (Nk, col_in, col_out) with the key
window opaque: every schedule column is a xor-set of interned atoms  K[i] (window column i),  S(t) (SubWord),  rot(t) (RotWord),
Rcon[i];  xor is symmetric difference.  The columns returned are compared with the FIPS-197 schedule computed in the same algebra
from the same window (forward recurrence 5.2, and the recurrence solved for w[c] when expanding backwards).  No byte is ever
computed: equality is equality of terms modulo associativity / commutativity / cancellation of xor.
"""
import ast

from . import confinterp as cf
from .model import norm

_intern = {}


def atom(*t):
    if t not in _intern:
        _intern[t] = len(_intern) + 1
    return _intern[t]


def X(*sets):
    out = frozenset()
    for s in sets:
        out = out ^ s
    return out


def K(i):
    return frozenset([atom('K', i)])


def S(t):
    return frozenset([atom('S', t)])


def ROT(t):
    return frozenset([atom('rot', t)])


def RC(i):
    return frozenset([atom('RCON', i)])


class ColArr:
    def __init__(self, n):
        self.n = n
        self.cells = {}


class KeyView:
    pass


class Cols(cf.Interp):
    def __init__(self, prog, nk):
        super().__init__(prog)
        self.nk = nk

    def ev(self, e, env, mod, func, depth):
        if isinstance(e, ast.Subscript) and isinstance(e.value, ast.Name) and e.value.id in ('SBOX', 'RCON') and e.value.id not in env:
            idx = self.ev(e.slice, env, mod, func, depth)
            if e.value.id == 'SBOX':
                if not isinstance(idx, frozenset):
                    raise cf.Unknown('SBOX of a non column')
                return S(idx)
            if not isinstance(idx, int):
                raise cf.Unknown('RCON index')
            if idx < 0:
                raise cf.Raised('negative RCON index wraps', e)
            return RC(idx)
        if isinstance(e, ast.Subscript):
            base = self.ev(e.value, env, mod, func, depth)
            if isinstance(base, ColArr):
                idx = self.index_value(e.slice, env, mod, func, depth)
                if isinstance(idx, tuple) and len(idx) >= 2 and idx[0] == slice(None, None, None) and isinstance(idx[1], int):
                    c = idx[1]
                    if c < 0:
                        c += base.n
                    if c not in base.cells:
                        raise cf.Raised(f'column {c} read before it is written', e)
                    return base.cells[c]
                if isinstance(idx, tuple) and len(idx) >= 2 and idx[0] == slice(None, None, None) and isinstance(idx[1], slice):
                    lo, hi, st = idx[1].indices(base.n)
                    return ('cols', [base.cells.get(c) for c in range(lo, hi, st)])
                raise cf.Unknown(f'subscript of the schedule buffer `{norm(e.slice)[:30]}`')
            if isinstance(base, KeyView):
                idx = self.index_value(e.slice, env, mod, func, depth)
                if isinstance(idx, tuple) and len(idx) >= 2 and isinstance(idx[1], int):
                    i = idx[1]
                    if not 0 <= i < self.nk:
                        raise cf.Raised(f'window column {i} out of range', e)
                    return K(i)
                raise cf.Unknown('subscript of the key window')
        if isinstance(e, ast.BinOp) and isinstance(e.op, ast.BitXor):
            a, b = self.ev(e.left, env, mod, func, depth), self.ev(e.right, env, mod, func, depth)
            if isinstance(a, frozenset) and isinstance(b, frozenset):
                return a ^ b
        return super().ev(e, env, mod, func, depth)

    def assign(self, t, v, env, mod, func, depth, st):
        if isinstance(t, ast.Subscript):
            base = self.ev(t.value, env, mod, func, depth)
            if isinstance(base, ColArr):
                idx = self.index_value(t.slice, env, mod, func, depth)
                if isinstance(idx, tuple) and len(idx) >= 2 and idx[0] == slice(None, None, None) and isinstance(idx[1], int) and isinstance(v, frozenset):
                    c = idx[1]
                    if c < 0:
                        c += base.n
                    if not 0 <= c < base.n:
                        raise cf.Raised('IndexError', st)
                    base.cells[c] = v
                    return
                raise cf.Unknown('store into the schedule buffer')
        return super().assign(t, v, env, mod, func, depth, st)

    def callexpr(self, e, env, mod, func, depth):
        fn = e.func
        d = self.prog.dotted(mod, fn) if isinstance(fn, (ast.Name, ast.Attribute)) else None
        name = (d or norm(fn)).split('.')[-1]
        if d and d.startswith('numpy'):
            if name in ('empty', 'zeros'):
                shp = self.ev(e.args[0], env, mod, func, depth)
                if isinstance(shp, tuple) and len(shp) == 3 and isinstance(shp[1], int):
                    return ColArr(shp[1])
                raise cf.Unknown('schedule buffer shape')
            if name == 'bitwise_xor' and len(e.args) == 2:
                a, b = [self.ev(x, env, mod, func, depth) for x in e.args]
                if isinstance(a, frozenset) and isinstance(b, frozenset):
                    return a ^ b
                raise cf.Unknown('xor of non columns')
            if name == 'roll':
                a = self.ev(e.args[0], env, mod, func, depth)
                kws = {k.arg: self.ev(k.value, env, mod, func, depth) for k in e.keywords}
                sh = kws.get('shift', self.ev(e.args[1], env, mod, func, depth) if len(e.args) > 1 else None)
                ax = kws.get('axis', self.ev(e.args[2], env, mod, func, depth) if len(e.args) > 2 else None)
                if not isinstance(a, frozenset):
                    raise cf.Unknown('roll of a non column')
                if (sh, ax) in ((-1, -1), (-1, 1), (3, -1), (3, 1)):
                    return ROT(a)
                return frozenset([atom('roll', sh, ax, a)])
        if isinstance(fn, ast.Attribute) and fn.attr == 'reshape':
            o = self.ev(fn.value, env, mod, func, depth)
            if isinstance(o, tuple) and o and o[0] == 'cols':
                return o
            if isinstance(o, ColArr):
                return ('cols', [o.cells.get(c) for c in range(o.n)])
            if isinstance(o, cf.Sym) and o.name == 'key_cols':
                return KeyView()
        if isinstance(fn, ast.Name) and fn.id == 'int' and len(e.args) == 1:
            v = self.ev(e.args[0], env, mod, func, depth)
            if isinstance(v, (int, float)):
                return int(v)
        return super().callexpr(e, env, mod, func, depth)


def reference(nk, col_in, n_before, n_after):
    """true schedule columns col_in - n_before .. col_in + nk - 1 + n_after as terms over the window K[0..nk-1] = columns
    col_in .. col_in + nk - 1"""
    w = {col_in + i: K(i) for i in range(nk)}
    for c in range(col_in + nk, col_in + nk + n_after):
        prev, back = w[c - 1], w[c - nk]
        if c % nk == 0:
            w[c] = X(S(ROT(prev)), RC(c // nk - 1), back)
        elif nk == 8 and c % 8 == 4:
            w[c] = X(S(prev), back)
        else:
            w[c] = X(prev, back)
    for c in range(col_in - 1, col_in - 1 - n_before, -1):
        # w[c+nk] = w[c] ^ g(w[c+nk-1])  =>  w[c] = w[c+nk] ^ g(w[c+nk-1])
        nxt, prevn = w[c + nk], w[c + nk - 1]
        cc = c + nk
        if cc % nk == 0:
            w[c] = X(nxt, S(ROT(prevn)), RC(cc // nk - 1))
        elif nk == 8 and cc % 8 == 4:
            w[c] = X(nxt, S(prevn))
        else:
            w[c] = X(nxt, prevn)
    return w
