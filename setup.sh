#!/bin/sh
# Nothing to build: the checkers are pure-stdlib Python. Verify the interpreter can compile them.
cd "$(dirname "$0")" || exit 1
if command -v python3-vt >/dev/null 2>&1; then PY=python3-vt
elif [ -x /venv/bin/python ]; then PY=/venv/bin/python
else PY=python3; fi
mkdir -p evidence replays
exec "$PY" -B -c "
import ast, glob, sys
for f in glob.glob('sa/**/*.py', recursive=True) + glob.glob('spec/*.py') + glob.glob('selftest/*.py'):
    ast.parse(open(f).read(), f)
print('verif checkers parse OK')
"
