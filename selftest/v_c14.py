T = 'scared/distinguishers/template.py'
VARIANTS = [
 dict(id='c14-score-batch-mean', prop='C14', file=T, expect='C14-D5', old="            scores.append(tmp.sum())\n", new="            scores.append(tmp.mean())\n"),
 dict(id='c14-score-not-normalised', prop='C14', file=T, expect='C14-D5', old="        return (10 - (self._scores / self.processed_traces))\n", new="        return (10 - self._scores)\n"),
 dict(id='c14-score-running-mean', prop='C14', file=T, expect='C14-D5', old="        self._scores += _np.array(scores) / traces.shape[1]\n", new="        self._scores += (_np.array(scores) / traces.shape[1] - self._scores) / 2\n"),
 dict(id='c14-score-divided-by-batch', prop='C14', file=T, expect='C14-D5', old="        self._scores += _np.array(scores) / traces.shape[1]\n", new="        self._scores += _np.array(scores) / traces.shape[0]\n"),
 dict(id='c14-silent-score-np-sum', prop='C14', kind='silent', file=T, old="            scores.append(tmp.sum())\n", new="            scores.append(_np.sum(tmp))\n"),
 dict(id='c14-build-counters-aliased', prop='C14', file=T, expect='C14-D6', old="        tmp_counters = _np.copy(self._counters).astype(self.precision)\n", new="        tmp_counters = self._counters\n"),
 dict(id='c14-is-build-first', prop='C14', file='scared/analysis/template.py', expect='C14-D1', old="        self.is_build = True\n", new="        pass\n", allow_undecided=True),
 dict(id='c14-pooled-covariance-biased', prop='C14', expect='C14-D9', file='scared/distinguishers/template.py', old="            self.pooled_covariance += (self._exxi[i] - tmp_matrix) / (tmp_counters[i] - 1)\n", new="            self.pooled_covariance += (self._exxi[i] - tmp_matrix) / tmp_counters[i]\n"),
 dict(id='c14-score-not-normalised-by-samples', prop='C14', expect='C14-D9', file='scared/distinguishers/template.py', old="        self._scores += _np.array(scores) / traces.shape[1]\n", new="        self._scores += _np.array(scores) / traces.shape[0]\n"),
 dict(id='c14-template-sign', prop='C14', expect='C14-D9', file='scared/distinguishers/template.py', old="            tmp_traces = traces - self.templates[self.get_template_index(data, i)]\n", new="            tmp_traces = traces + self.templates[self.get_template_index(data, i)]\n"),
 dict(id='c14-silent-covariance-regrouped', prop='C14', kind='silent', file='scared/distinguishers/template.py', old="            self.pooled_covariance += (self._exxi[i] - tmp_matrix) / (tmp_counters[i] - 1)\n", new="            within = self._exxi[i] - tmp_matrix\n            self.pooled_covariance += within / (tmp_counters[i] - 1)\n"),
 dict(id='c14-template-kernel1-outer-with-itself-only', prop='C14', expect='C14-D12', file='scared/distinguishers/template.py',
      old="                    self_exxi[data_value, sample_idx] += x * traces[trace_idx]\n", new="                    self_exxi[data_value, sample_idx, sample_idx] += x * x\n"),
]

# mutants of refactored shapes (round 7): the refactoring is applied first (base), the defect on top of it
VARIANTS += [
 dict(id='c14-p2ref3-flag-guard-negated', prop='C14', base='P2-REF3', expect='C14-D10', file=T,
      old="            first_sample = sample_idx == 0\n", new="            first_sample = sample_idx != 0\n"),
 dict(id='c14-p2ref1-generator-biased-divisor', prop='C14', base='P2-REF1', expect='C14-D9', file=T,
      old="            yield (self._exxi[i] - mean_product) / (counters[i] - 1)\n", new="            yield (self._exxi[i] - mean_product) / counters[i]\n"),
 dict(id='c14-p2ref2-table-without-covariance', prop='C14', base='P2-REF2', expect='C14-D1', file='scared/analysis/template.py',
      old="        ('pooled_covariance', 'pooled_covariance'),\n", new=""),
 dict(id='c14-p2ref2-table-crossed', prop='C14', base='P2-REF2', expect='C14-D2', file='scared/analysis/template.py',
      old="        ('pooled_covariance_inv', 'pooled_covariance_inv'),\n        ('pooled_covariance', 'pooled_covariance'),\n",
      new="        ('pooled_covariance_inv', 'pooled_covariance'),\n        ('pooled_covariance', 'pooled_covariance_inv'),\n"),
]

VARIANTS += [
 dict(id='c14-pooled-divided-by-populated-classes', prop='C14', expect='C14-D9', file='scared/distinguishers/template.py',
      old="        self.pooled_covariance /= len(self.partitions)\n", new="        self.pooled_covariance /= max(_np.count_nonzero(self._counters), 1)\n"),
 dict(id='c14-pooled-divided-by-populated-classes-local', prop='C14', expect='C14-D9', file='scared/distinguishers/template.py',
      old="        self.pooled_covariance /= len(self.partitions)\n", new="        populated = _np.count_nonzero(tmp_counters)\n        self.pooled_covariance /= populated\n"),
 dict(id='c14-silent-pooled-divided-by-len-counters', prop='C14', kind='silent', file='scared/distinguishers/template.py',
      old="        self.pooled_covariance /= len(self.partitions)\n", new="        nb_classes = len(self.partitions)\n        self.pooled_covariance /= max(nb_classes, nb_classes)\n"),
]
