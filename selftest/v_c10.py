D = 'scared/des/base.py'
A = 'scared/aes/base.py'
VARIANTS = [
 dict(id='c10-rkbi-entry', prop='C10', file=D, expect='C10-D1', old="        [52, 21, 20, 6, 62, 38]\n    ]\n], dtype=_np.uint8)", new="        [52, 21, 20, 6, 62, 37]\n    ]\n], dtype=_np.uint8)"),
 dict(id='c10-keybits-lsb-first', prop='C10', file=D, expect='C10-D1',
      old="        key_bits[:, current_key_byte * 8 + 6] = ((key[:, current_key_byte] & 0x02) != 0x00)\n        key_bits[:, current_key_byte * 8 + 7] = ((key[:, current_key_byte] & 0x01) != 0x00)\n",
      new="        key_bits[:, current_key_byte * 8 + 6] = ((key[:, current_key_byte] & 0x01) != 0x00)\n        key_bits[:, current_key_byte * 8 + 7] = ((key[:, current_key_byte] & 0x02) != 0x00)\n"),
 dict(id='c10-roundkey-weight', prop='C10', file=D, expect='C10-D1',
      old="                0x02 * key_bits[:, ROUND_KEY_BITS_INDEXES[current_round][current_word][4]] + \\\n                0x01 * key_bits[:, ROUND_KEY_BITS_INDEXES[current_round][current_word][5]]\n",
      new="                0x02 * key_bits[:, ROUND_KEY_BITS_INDEXES[current_round][current_word][5]] + \\\n                0x01 * key_bits[:, ROUND_KEY_BITS_INDEXES[current_round][current_word][4]]\n"),
 dict(id='c10-pc2-entry', prop='C10', file=D, expect='C10-D1', old="PC2 = [14, 17, 11, 24, 1, 5,", new="PC2 = [14, 17, 11, 24, 5, 1,"),
 dict(id='c10-break-early', prop='C10', file=D, expect='C10-D1',
      old="        if current_round == interrupt_after_round:\n            break\n", new="        if current_round + 1 == interrupt_after_round:\n            break\n"),
 dict(id='c10-nb-shift', prop='C10', file=D, expect='C10-D2', old="    nb_shift = [1, 2, 4, 6, 8, 10, 12, 14, 15, 17, 19, 21, 23, 25, 27, 28]\n", new="    nb_shift = [1, 2, 4, 6, 8, 10, 12, 14, 16, 18, 20, 22, 24, 26, 27, 28]\n"),
 dict(id='c10-cidi-unknown-moved', prop='C10', file=D, expect='C10-D2', old="                       0, 0, 255, 0, 0, 0,\n                       0, 0, 0, 0, 0, 255,\n", new="                       0, 0, 0, 255, 0, 0,\n                       0, 0, 0, 0, 0, 255,\n"),
 dict(id='c10-unpc1-direct', prop='C10', file=D, expect='C10-D2', old="        master_key[PC1[index] - 1] = ci_di[index]\n", new="        master_key[index] = ci_di[PC1[index] - 1] if PC1[index] - 1 < 56 else 0\n"),
 dict(id='c10-roll-left', prop='C10', file=D, expect='C10-D2', old="    ci_di = _np.roll(ci_di, + nb_shift[nb_round], 1)\n", new="    ci_di = _np.roll(ci_di, - nb_shift[nb_round], 1)\n"),
 dict(id='c10-aes-rcon-index', prop='C10', file=A, expect='C10-D3', old="RCON[int(col / cols_in) - 1])\n            expanded_key[:, col] = _np.bitwise_xor(expanded_key[:, col], expanded_key[:, col - cols_in])", new="RCON[int(col / cols_in)])\n            expanded_key[:, col] = _np.bitwise_xor(expanded_key[:, col], expanded_key[:, col - cols_in])"),
 dict(id='c10-aes-256-no-rot-missing-sbox', prop='C10', file=A, expect='C10-D3',
      old="            expanded_key[:, col] = _np.bitwise_xor(\n                SBOX[expanded_key[:, col - 1]],\n                expanded_key[:, col - cols_in]\n            )\n",
      new="            expanded_key[:, col] = _np.bitwise_xor(\n                SBOX[_np.roll(expanded_key[:, col - 1], shift=-1, axis=-1)],\n                expanded_key[:, col - cols_in]\n            )\n"),
 dict(id='c10-aes-256-condition', prop='C10', file=A, expect='C10-D3',
      old="        elif bytes_key_length == 32 and col % 4 == 0:\n            expanded_key[:, col] = _np.bitwise_xor(\n                SBOX[expanded_key[:, col - 1]],", new="        elif bytes_key_length >= 24 and col % 4 == 0:\n            expanded_key[:, col] = _np.bitwise_xor(\n                SBOX[expanded_key[:, col - 1]],"),
 dict(id='c10-aes-rot-direction', prop='C10', file=A, expect='C10-D3',
      old="            expanded_key[:, col] = SBOX[_np.roll(expanded_key[:, col - 1], shift=-1, axis=-1)]\n", new="            expanded_key[:, col] = SBOX[_np.roll(expanded_key[:, col - 1], shift=1, axis=-1)]\n"),
 dict(id='c10-aes-backward-rcon', prop='C10', file=A, expect='C10-D3',
      old="            expanded_key[:, col] = _np.bitwise_xor(expanded_key[:, col], RCON[int(col / cols_in)])\n", new="            expanded_key[:, col] = _np.bitwise_xor(expanded_key[:, col], RCON[int(col / cols_in) - 1])\n"),
 dict(id='c10-aes-backward-prev', prop='C10', file=A, expect='C10-D3',
      old="            expanded_key[:, col] = _np.bitwise_xor(expanded_key[:, col + cols_in], expanded_key[:, col + cols_in - 1])\n", new="            expanded_key[:, col] = _np.bitwise_xor(expanded_key[:, col + cols_in], expanded_key[:, col + 1])\n"),
 dict(id='c10-aes-backward-window', prop='C10', file=A, expect='C10-D3',
      old="            expanded_key[:, col] = key[:, cols_in - index - 1, :]\n", new="            expanded_key[:, col] = key[:, index, :]\n"),
 dict(id='c10-silent-xor-commuted', prop='C10', kind='silent', file=A,
      old="            expanded_key[:, col] = _np.bitwise_xor(expanded_key[:, col - 1], expanded_key[:, col - cols_in])\n", new="            expanded_key[:, col] = _np.bitwise_xor(expanded_key[:, col - cols_in], expanded_key[:, col - 1])\n"),
 dict(id='c10-silent-one-xor', prop='C10', kind='silent', file=A,
      old="            expanded_key[:, col] = _np.bitwise_xor(expanded_key[:, col], RCON[int(col / cols_in) - 1])\n            expanded_key[:, col] = _np.bitwise_xor(expanded_key[:, col], expanded_key[:, col - cols_in])\n",
      new="            expanded_key[:, col] = _np.bitwise_xor(expanded_key[:, col], _np.bitwise_xor(RCON[int(col / cols_in) - 1], expanded_key[:, col - cols_in]))\n"),
 dict(id='c10-silent-shift-table-refactor', prop='C10', kind='silent', file=D,
      edits=[(D, "    nb_shift = [1, 2, 4, 6, 8, 10, 12, 14, 15, 17, 19, 21, 23, 25, 27, 28]\n    ci_di = _np.roll(ci_di, + nb_shift[nb_round], 1)\n", "    shifts = [1, 1, 2, 2, 2, 2, 2, 2, 1, 2, 2, 2, 2, 2, 2, 1]\n    ci_di = _np.roll(ci_di, sum(shifts[:nb_round + 1]), 1)\n")]),
 dict(id='c10-shift-table-swapped', prop='C10', file=D, expect='C10-D2',
      edits=[(D, "    nb_shift = [1, 2, 4, 6, 8, 10, 12, 14, 15, 17, 19, 21, 23, 25, 27, 28]\n    ci_di = _np.roll(ci_di, + nb_shift[nb_round], 1)\n", "    shifts = [1, 1, 2, 2, 2, 2, 2, 2, 2, 1, 2, 2, 2, 2, 2, 1]\n    ci_di = _np.roll(ci_di, sum(shifts[:nb_round + 1]), 1)\n")]),
 dict(id='c10-inverse-roll-left', prop='C10', file=D, expect='C10-D2', old="    ci_di = _np.roll(ci_di, + nb_shift[nb_round], 1)\n", new="    ci_di = _np.roll(ci_di, - nb_shift[nb_round], 1)\n"),
 dict(id='c10-inverse-bit-order', prop='C10', file=D, expect='C10-D2', old="        bit = 1 << (5 - index % 6)\n", new="        bit = 1 << (index % 6)\n"),
 dict(id='c10-silent-rotword-helper', prop='C10', kind='silent', file=A,
      edits=[(A, "def _expand_forward(", "def _rot_word(word):\n    return _np.roll(word, -1, axis=-1)\n\n\ndef _expand_forward("),
             (A, "            expanded_key[:, col] = SBOX[_np.roll(expanded_key[:, col - 1], shift=-1, axis=-1)]\n", "            expanded_key[:, col] = SBOX[_rot_word(expanded_key[:, col - 1])]\n")]),
 dict(id='c10-rotword-helper-flat-roll', prop='C10', file=A, expect='C10-D3',
      edits=[(A, "def _expand_forward(", "def _rot_word(word):\n    return _np.roll(word, -1)\n\n\ndef _expand_forward("),
             (A, "            expanded_key[:, col] = SBOX[_np.roll(expanded_key[:, col - 1], shift=-1, axis=-1)]\n", "            expanded_key[:, col] = SBOX[_rot_word(expanded_key[:, col - 1])]\n")]),
 dict(id='c10-inv-key-schedule-wrong-window', prop='C10', expect='C10-D3', file='scared/aes/base.py', old="col_in=round_in * 4, col_out=0)", new="col_in=round_in * 4 + 4, col_out=0)"),
 dict(id='c10-candidate-bytes-little-endian', prop='C10', expect='C10-D2', file='scared/des/base.py', old="for hit in range(7, -1, -1)]", new="for hit in range(8)]"),
 dict(id='c10-memo-keeps-callers-key', prop='C10', expect='C10-S1', file='scared/des/base.py',
      edits=[('scared/des/base.py', "def key_schedule(key, interrupt_after_round=15):\n", "_schedule_memo = []\n\n\ndef key_schedule(key, interrupt_after_round=15):\n"),
             ('scared/des/base.py', "    # we allocate the table that will contain splitted key bits\n", "    if _schedule_memo and _np.array_equal(_schedule_memo[0], key):\n        round_keys = _schedule_memo[1].reshape((-1, DES_ROUNDS, 8))[:, :interrupt_after_round + 1].copy()\n        return round_keys if dimensions else round_keys[0]\n    # we allocate the table that will contain splitted key bits\n"),
             ('scared/des/base.py', "    if dimensions:\n        final_shape = (-1, (interrupt_after_round + 1), 8)\n", "    if interrupt_after_round == DES_ROUNDS - 1:\n        _schedule_memo[:] = [key, output_key.copy()]\n    if dimensions:\n        final_shape = (-1, (interrupt_after_round + 1), 8)\n")]),
 dict(id='c10-memo-view-handed-out', prop='C10', expect='C10-S1', file='scared/des/base.py',
      edits=[('scared/des/base.py', "def key_schedule(key, interrupt_after_round=15):\n", "_schedule_memo = []\n\n\ndef key_schedule(key, interrupt_after_round=15):\n"),
             ('scared/des/base.py', "    # we allocate the table that will contain splitted key bits\n", "    if _schedule_memo and _np.array_equal(_schedule_memo[0], key) and not dimensions:\n        return _schedule_memo[1][:interrupt_after_round + 1]\n    # we allocate the table that will contain splitted key bits\n"),
             ('scared/des/base.py', "    if dimensions:\n        final_shape = (-1, (interrupt_after_round + 1), 8)\n", "    if interrupt_after_round == DES_ROUNDS - 1 and not dimensions:\n        _schedule_memo[:] = [key.copy(), output_key.reshape((DES_ROUNDS, 8)).copy()]\n    if dimensions:\n        final_shape = (-1, (interrupt_after_round + 1), 8)\n")]),
]

VARIANTS += [
 dict(id='c10-p8ref2-pipeline-one-round-more', prop='C10', base='P8-REF2', expect='C10-D1', file='scared/des/base.py',
      old="    return interrupt_after_round + 1\n", new="    return interrupt_after_round + 2\n", allow_undecided=True),
 dict(id='c10-p8ref2-pipeline-mask-order', prop='C10', base='P8-REF2', expect='C10-D1', file='scared/des/base.py',
      old="_KEY_BYTE_MASKS = (0x80, 0x40, 0x20, 0x10, 0x08, 0x04, 0x02, 0x01)", new="_KEY_BYTE_MASKS = (0x01, 0x02, 0x04, 0x08, 0x10, 0x20, 0x40, 0x80)"),
 dict(id='c10-p8ref1-enum-rule-swapped', prop='C10', base='P8-REF1', expect='C10', file='scared/aes/base.py',
      old="    if col % cols_in == 0:\n        return _ColumnRule.ROT_SUB_RCON\n", new="    if col % cols_in == 0:\n        return _ColumnRule.SUB\n"),
]

VARIANTS += [
 dict(id='c10-view-of-the-key-argument', prop='C10', expect='C10-D5', file='scared/des/base.py',
      old="        key_bits[:, current_key_byte * 8 + 0] = ((key[:, current_key_byte] & 0x80) != 0x00)\n",
      new="        key_bits[:, current_key_byte * 8 + 0] = ((key.view(_np.uint8)[:, current_key_byte] & 0x80) != 0x00)\n"),
]

_OLD_BITS = """    # we allocate the table that will contain splitted key bits
    key_bits = _np.empty((key.shape[0], 64), dtype=_np.uint8)
    # split the key into bits
    for current_key_byte in _np.arange(8):
        key_bits[:, current_key_byte * 8 + 0] = ((key[:, current_key_byte] & 0x80) != 0x00)
        key_bits[:, current_key_byte * 8 + 1] = ((key[:, current_key_byte] & 0x40) != 0x00)
        key_bits[:, current_key_byte * 8 + 2] = ((key[:, current_key_byte] & 0x20) != 0x00)
        key_bits[:, current_key_byte * 8 + 3] = ((key[:, current_key_byte] & 0x10) != 0x00)
        key_bits[:, current_key_byte * 8 + 4] = ((key[:, current_key_byte] & 0x08) != 0x00)
        key_bits[:, current_key_byte * 8 + 5] = ((key[:, current_key_byte] & 0x04) != 0x00)
        key_bits[:, current_key_byte * 8 + 6] = ((key[:, current_key_byte] & 0x02) != 0x00)
        key_bits[:, current_key_byte * 8 + 7] = ((key[:, current_key_byte] & 0x01) != 0x00)
"""
VARIANTS += [
 dict(id='c10-silent-unpackbits-of-converted-key', prop='C10', kind='silent', file='scared/des/base.py', old=_OLD_BITS,
      new="    key_bits = _np.unpackbits(key.astype(_np.uint8), axis=1, count=64)\n"),
 dict(id='c10-unpackbits-little-endian-bits', prop='C10', expect='C10-D1', file='scared/des/base.py', old=_OLD_BITS,
      new="    key_bits = _np.unpackbits(key.astype(_np.uint8), axis=1, count=64)[:, ::-1]\n", allow_undecided=True),
]
