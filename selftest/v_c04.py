P = 'scared/distinguishers/partitioned.py'
MASKED = """            non_zero_counters = self.counters[i][non_zero_indices]
            sums = self.sum[i][:, non_zero_indices]
            sums_squared = self.sum_square[i][:, non_zero_indices]
"""
FAST = """            if non_zero_indices.all():
                non_zero_counters = self.counters[i]
                sums = self.sum[i]
                sums_squared = self.sum_square[i]
            else:
                non_zero_counters = self.counters[i][non_zero_indices]
                sums = self.sum[i][:, non_zero_indices]
                sums_squared = self.sum_square[i][:, non_zero_indices]
"""
ANOVA_DEN = """        denominator = _np.sum(
            (sums_squared - sums ** 2 / non_zero_counters),
            axis=-1
        ) / (number_non_zero - total_non_empty_partitions)
"""
VARIANTS = [
 dict(id='c04-silent-fast-path-views', prop='C04', kind='silent', file=P, old=MASKED, new=FAST),
 dict(id='c04-fast-path-inplace-metric', prop='C04', expect='C04-D2', file=P, edits=[(P, MASKED, FAST), (P, ANOVA_DEN, "        sums_squared -= sums ** 2 / non_zero_counters\n        denominator = _np.sum(sums_squared, axis=-1) / (number_non_zero - total_non_empty_partitions)\n")]),
 dict(id='c04-silent-inplace-on-copy', prop='C04', kind='silent', file=P, old=ANOVA_DEN, new="        sums_squared -= sums ** 2 / non_zero_counters\n        denominator = _np.sum(sums_squared, axis=-1) / (number_non_zero - total_non_empty_partitions)\n"),
 dict(id='c04-unmasked-sum', prop='C04', expect='C04-D1', file=P, old="            sums = self.sum[i][:, non_zero_indices]\n", new="            sums = self.sum[i]\n"),
 dict(id='c04-mask-nonneg', prop='C04', expect='C04-D1', file=P, old="            non_zero_indices = self.counters[i] > 0\n", new="            non_zero_indices = self.counters[i] >= 0\n"),
 dict(id='c04-snr-signal-mean-noise-declared', prop='C04', expect='C04-D5', file=P,
      old="        numerator = _np.sum(numerator, axis=1) / non_zero_indices.shape[0]\n\n        denominator = (sums_squared / non_zero_counters)",
      new="        numerator = _np.mean(numerator, axis=1)\n\n        denominator = (sums_squared / non_zero_counters)"),
 dict(id='c04-snr-noise-squared-size', prop='C04', expect='C04-D5', file=P,
      old="        denominator = _np.sum(denominator, axis=1) / non_zero_indices.shape[0]\n", new="        denominator = _np.sum(denominator, axis=1) / non_zero_indices.shape[0] ** 2\n"),
 dict(id='c04-nicv-declared-size', prop='C04', expect='C04-D5', file=P, old="        numerator *= non_zero_counters / number_non_zero\n", new="        numerator *= non_zero_counters / (number_non_zero * len(non_zero_indices))\n"),
 dict(id='c04-silent-snr-both-means', prop='C04', kind='silent', file=P,
      edits=[(P, "        numerator = _np.sum(numerator, axis=1) / non_zero_indices.shape[0]\n\n        denominator = (sums_squared / non_zero_counters)", "        numerator = _np.mean(numerator, axis=1)\n\n        denominator = (sums_squared / non_zero_counters)"),
             (P, "        denominator = _np.sum(denominator, axis=1) / non_zero_indices.shape[0]\n", "        denominator = _np.mean(denominator, axis=1)\n")]),
 dict(id='c04-no-inf-mapping', prop='C04', expect='C04-D3', file=P, old="            tmp_result[_np.isinf(tmp_result)] = _np.nan\n            result[i] = tmp_result.astype(self.precision)", new="            result[i] = tmp_result.astype(self.precision)"),
 dict(id='c04-metric-reads-state', prop='C04', expect='C04-D2', file=P, old="        mean = _np.sum(sums, axis=1) / number_non_zero\n\n        numerator = (((sums / non_zero_counters).T - mean).T)**2\n        numerator *= non_zero_counters / number_non_zero", new="        mean = _np.sum(sums, axis=1) / self.processed_traces\n\n        numerator = (((sums / non_zero_counters).T - mean).T)**2\n        numerator *= non_zero_counters / number_non_zero"),
dict(id='c04-nicv-total-variance-unsquared-mean', prop='C04', expect='C04-D8', file=P, old="        denominator = _np.sum(sums_squared, axis=1) / number_non_zero - (mean)**2\n", new="        denominator = _np.sum(sums_squared, axis=1) / number_non_zero - mean\n"),
 dict(id='c04-nicv-weights-not-normalised', prop='C04', expect='C04-D8', file=P, old="        numerator *= non_zero_counters / number_non_zero\n", new="        numerator *= non_zero_counters\n"),
 dict(id='c04-anova-within-not-normalised', prop='C04', expect='C04-D8', file=P, old="        ) / (number_non_zero - total_non_empty_partitions)\n", new="        )\n"),
 dict(id='c04-anova-square-of-sums-unnormalised', prop='C04', expect='C04-D8', file=P, old="            (sums_squared - sums ** 2 / non_zero_counters),", new="            (sums_squared - sums ** 2),"),
 dict(id='c04-snr-noise-mean-unsquared', prop='C04', expect='C04-D8', file=P, old="        denominator = (sums_squared / non_zero_counters) - (sums / non_zero_counters)**2\n", new="        denominator = (sums_squared / non_zero_counters) - (sums / non_zero_counters)\n"),
 dict(id='c04-kernel-square-sum-unsquared', prop='C04', expect='C04-D8', file=P, old="                        self_sum_square[sample_idx, data_idx, data_value] += xx\n", new="                        self_sum_square[sample_idx, data_idx, data_value] += x\n"),
 dict(id='c04-silent-nicv-algebraic-rewrite', prop='C04', kind='silent', file=P, old="        denominator = _np.sum(sums_squared, axis=1) / number_non_zero - (mean)**2\n", new="        denominator = (_np.sum(sums_squared, axis=1) - number_non_zero * mean * mean) / number_non_zero\n"),
 dict(id='c04-anova-dof-n-minus-1', prop='C04', expect='C04-D10', file='scared/distinguishers/partitioned.py', old="        ) / (number_non_zero - total_non_empty_partitions)\n", new="        ) / (number_non_zero - 1)\n"),
 dict(id='c04-nicv-unweighted-class-means', prop='C04', expect='C04-D10', file='scared/distinguishers/partitioned.py', old="        numerator *= non_zero_counters / number_non_zero\n", new="        numerator /= non_zero_indices.shape[0]\n"),
 dict(id='c04-silent-snr-hoisted-means', prop='C04', kind='silent', file='scared/distinguishers/partitioned.py', old="        denominator = (sums_squared / non_zero_counters) - (sums / non_zero_counters)**2\n", new="        class_means = sums / non_zero_counters\n        denominator = (sums_squared / non_zero_counters) - class_means * class_means\n"),
 dict(id='c04-counter-pinned-to-sample-one', prop='C04', expect='C04-D11', file='scared/distinguishers/partitioned.py', old="                        if sample_idx == 0:\n", new="                        if sample_idx == 1:\n"),
 dict(id='c04-kernel2-complement-mask', prop='C04', expect='C04-D11', file='scared/distinguishers/partitioned.py', old="            tmp_bool = data == p  #", new="            tmp_bool = data != p  #"),
 dict(id='c04-kernel1-square-of-sum-position', prop='C04', expect='C04-D12', file='scared/distinguishers/partitioned.py',
      old="                        self_sum_square[sample_idx, data_idx, data_value] += xx\n", new="                        self_sum_square[sample_idx, data_idx, data_value] += x\n"),
]

VARIANTS += [
 dict(id='c04-p4ref6-pipeline-inf-kept', prop='C04', base='P4-REF6', expect='C04', file='scared/distinguishers/partitioned.py',
      old="        metric[_np.isinf(metric)] = _np.nan\n", new=""),
 dict(id='c04-p4ref6-pipeline-counters-ge', prop='C04', base='P4-REF6', expect='C04', file='scared/distinguishers/partitioned.py',
      old="            non_zero_indices = self.counters[i] > 0\n", new="            non_zero_indices = self.counters[i] >= 0\n"),
]
