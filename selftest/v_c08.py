AB = 'scared/analysis/base.py'
VARIANTS = [
 dict(id='c08-stale-scores-in-loop', prop='C08', file=AB, expect='C08-D1',
      old="                self._batches_processed = [self._batches_processed[-1]]\n                self.compute_results()\n                self._compute_convergence_traces()\n",
      new="                self._batches_processed = [self._batches_processed[-1]]\n                if self.results is None:\n                    self.compute_results()\n                self._compute_convergence_traces()\n"),
 dict(id='c08-final-append-before-compute', prop='C08', file=AB, expect='C08-D',
      old="        super()._final_compute()\n        if self.convergence_step and len(self._batches_processed) > 1:\n            self._compute_convergence_traces()\n",
      new="        if self.convergence_step and len(self._batches_processed) > 1:\n            self._compute_convergence_traces()\n        super()._final_compute()\n"),
 dict(id='c08-append-first-axis', prop='C08', file=AB, expect='C08-D1',
      old="self.scores[..., None], axis=-1)", new="self.scores[..., None], axis=0)"),
 dict(id='c08-recreate-traces', prop='C08', file=AB, expect='C08-D1',
      old="        if self.convergence_traces is None:\n            logger.info('Initialize convergence traces.')\n", new="        if self.convergence_traces is None or self.convergence_traces.shape[-1] > 10**6:\n            logger.info('Initialize convergence traces.')\n"),
 dict(id='c08-hook-touches-count', prop='C08', file=AB, expect='C08-D2',
      old="                self._batches_processed = [self._batches_processed[-1]]\n", new="                self._batches_processed = [self._batches_processed[-1]]\n                self._is_checked = False\n"),
 dict(id='c08-last-column-always', prop='C08', file=AB, expect='C08-D3',
      old="        if self.convergence_step and len(self._batches_processed) > 1:\n", new="        if self.convergence_step and len(self._batches_processed) >= 1:\n"),
 dict(id='c08-extra-caller', prop='C08', file=AB, expect='C08-D1',
      old="        self.scores = self.discriminant(self.results)\n        logger.info('Scores computed.')\n", new="        self.scores = self.discriminant(self.results)\n        if self.convergence_step and self.convergence_traces is None:\n            self._compute_convergence_traces()\n        logger.info('Scores computed.')\n"),
 dict(id='c08-silent-log', prop='C08', kind='silent', file=AB,
      old="        logger.info('Update convergence traces.')\n", new="        logger.debug('Update convergence traces.')\n"),
 dict(id='c08-reference-on-grid', prop='C08', file='scared/analysis/base.py', expect='C08-D4', old="                self._batches_processed = [self._batches_processed[-1]]\n", new="                self._batches_processed = [self._batches_processed[0] + self.convergence_step]\n"),
 dict(id='c08-guard-without-reference', prop='C08', file='scared/analysis/base.py', expect='C08-D4', old="            if self._batches_processed[-1] - self._batches_processed[0] >= self.convergence_step:\n", new="            if self._batches_processed[-1] >= self.convergence_step:\n"),
 dict(id='c08-final-modulo', prop='C08', file='scared/analysis/base.py', expect='C08-D3', old="        if self.convergence_step and len(self._batches_processed) > 1:\n", new="        if self.convergence_step and self.processed_traces % self.convergence_step:\n"),
 dict(id='c08-final-always', prop='C08', file='scared/analysis/base.py', expect='C08-D3', old="        if self.convergence_step and len(self._batches_processed) > 1:\n", new="        if self.convergence_step and len(self._batches_processed) >= 1:\n"),
 dict(id='c08-silent-final-ge2', prop='C08', kind='silent', file='scared/analysis/base.py', old="        if self.convergence_step and len(self._batches_processed) > 1:\n", new="        if len(self._batches_processed) >= 2 and self.convergence_step:\n"),
 dict(id='c08-silent-reference-count', prop='C08', kind='silent', file='scared/analysis/base.py', old="                self._batches_processed = [self._batches_processed[-1]]\n", new="                self._batches_processed = [self.processed_traces]\n"),
 dict(id='c08-silent-guard-commuted', prop='C08', kind='silent', file='scared/analysis/base.py', old="            if self._batches_processed[-1] - self._batches_processed[0] >= self.convergence_step:\n", new="            if self.processed_traces >= self._batches_processed[0] + self.convergence_step:\n"),
]

VARIANTS += [
 dict(id='c08-p6ref6-property-forgets-reference', prop='C08', base='P6-REF6', expect='C08-D4', file='scared/analysis/base.py',
      old="        return self._last_mark - self._batches_processed[0]\n", new="        return self._last_mark\n"),
]

VARIANTS += [
 dict(id='c08-created-with-one-column', prop='C08', expect='C08-D1', file='scared/analysis/base.py',
      old="self.convergence_traces = _np.empty(self.scores.shape + (0, ), dtype=self.precision)", new="self.convergence_traces = _np.empty(self.scores.shape + (1, ), dtype=self.precision)"),
 dict(id='c08-silent-created-zeros-no-column', prop='C08', kind='silent', file='scared/analysis/base.py',
      old="self.convergence_traces = _np.empty(self.scores.shape + (0, ), dtype=self.precision)", new="self.convergence_traces = _np.zeros((*self.scores.shape, 0), dtype=self.precision)"),
]

VARIANTS += [
 dict(id='c08-p6ref5-enum-state-reference-not-advanced', prop='C08', base='P6-REF5', expect='C08-D4', file='scared/analysis/base.py',
      old="            self._batches_processed = [self._batches_processed[-1]]\n            return _Convergence.POINT_REACHED\n",
      new="            self._batches_processed = [self._batches_processed[0]]\n            return _Convergence.POINT_REACHED\n"),
 dict(id='c08-p6ref5-enum-state-pending-too-early', prop='C08', base='P6-REF5', expect='C08-D3', file='scared/analysis/base.py',
      old="        if len(self._batches_processed) > 1:\n            return _Convergence.PENDING\n", new="        if len(self._batches_processed) > 0:\n            return _Convergence.PENDING\n"),
 dict(id='c08-p6ref5-enum-state-point-on-pending', prop='C08', base='P6-REF5', expect='C08', file='scared/analysis/base.py',
      old="        if self._register_processed_batch() is _Convergence.POINT_REACHED:\n", new="        if self._register_processed_batch() is not _Convergence.DISABLED:\n", allow_undecided=True),
]

VARIANTS += [
 dict(id='c08-compute-normalises-in-the-accumulator', prop='C08', expect='C08-D5', file='scared/distinguishers/cpa.py',
      old="            tmp_result = (xy - (self.ex * (y / self.processed_traces))) / (common_1 * com_2)\n",
      new="            tmp_result = xy.astype('float64', copy=False)\n            tmp_result -= self.ex * (y / self.processed_traces)\n            tmp_result /= common_1 * com_2\n"),
 dict(id='c08-silent-compute-normalises-in-a-copy', prop='C08', kind='silent', file='scared/distinguishers/cpa.py',
      old="            tmp_result = (xy - (self.ex * (y / self.processed_traces))) / (common_1 * com_2)\n",
      new="            tmp_result = xy.astype('float64')\n            tmp_result -= self.ex * (y / self.processed_traces)\n            tmp_result /= common_1 * com_2\n"),
]
