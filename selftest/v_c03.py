CP = 'scared/distinguishers/cpa.py'
DP = 'scared/distinguishers/dpa.py'
VARIANTS = [
 dict(id='c03-dim-variance-not-normalised', prop='C03', file=CP, expect='C03-D5', old="common_1 = _np.sqrt(self.ex2 - self.processed_traces * ((self.ex / self.processed_traces)**2))", new="common_1 = _np.sqrt(self.ex2 - self.processed_traces * ((self.ex)**2))"),
 dict(id='c03-dim-covariance-not-normalised', prop='C03', file=CP, expect='C03-D5', old="tmp_result = (xy - (self.ex * (y / self.processed_traces))) / (common_1 * com_2)", new="tmp_result = (xy - (self.ex * y)) / (common_1 * com_2)"),
 dict(id='c03-dim-alt-enum', prop='C03', file=CP, expect='C03-D5', old="enum = self.processed_traces * self.exy - _np.matmul(self.ey[:, None], self.ex[None, :])", new="enum = self.exy - _np.matmul(self.ey[:, None], self.ex[None, :])"),
 dict(id='c03-dim-alt-one-sigma', prop='C03', file=CP, expect='C03-D5', old="denom = _np.matmul(sigma_data[:, None], sigma_traces[None, :])", new="denom = _np.matmul(sigma_data[:, None], sigma_traces[None, :] ** 2)"),
 dict(id='c03-dim-second-moment-first-power', prop='C03', file=CP, expect='C03', old="self.ex2 += _np.sum(_traces ** 2, axis=0)", new="self.ex2 += _np.sum(_traces, axis=0)"),
 dict(id='c03-dim-dpa-unnormalised-zeros', prop='C03', file=DP, expect='C03-D5', old="result = normalized_ones - normalized_zeros", new="result = normalized_ones - accumulator_zeros"),
 dict(id='c03-silent-dim-regrouped', prop='C03', kind='silent', file=CP, old="common_1 = _np.sqrt(self.ex2 - self.processed_traces * ((self.ex / self.processed_traces)**2))", new="common_1 = _np.sqrt(self.ex2 - ((self.ex / self.processed_traces) ** 2) * self.processed_traces)"),
 dict(id='c03-silent-dim-alt-regrouped', prop='C03', kind='silent', file=CP, old="sigma_traces = _np.sqrt(self.processed_traces * self.ex2 - (self.ex) ** 2)", new="n_traces = self.processed_traces\n        sigma_traces = _np.sqrt(n_traces * self.ex2 - self.ex * self.ex)"),
 dict(id='c03-dpa-raw-trace-sum-before-cast', prop='C03', expect='C03-D4', file='scared/distinguishers/dpa.py',
      edits=[('scared/distinguishers/dpa.py', "        self.processed_ones += _np.sum(data, axis=0)\n        traces = traces.astype(self.precision)\n", "        self.processed_ones += _np.sum(data, axis=0)\n        self.accumulator_traces += _np.sum(traces, axis=0)\n        traces = traces.astype(self.precision)\n"),
             ('scared/distinguishers/dpa.py', "        data = data.astype(self.precision)\n        self.accumulator_traces += _np.sum(traces, axis=0)\n", "        data = data.astype(self.precision)\n")]),
 dict(id='c03-variance-squared-sum-first', prop='C03', expect='C03-D6', file='scared/distinguishers/cpa.py',
      old="        common_1 = _np.sqrt(self.ex2 - self.processed_traces * ((self.ex / self.processed_traces)**2))\n", new="        common_1 = _np.sqrt(self.ex2 - self.ex ** 2 / self.processed_traces)\n"),
 dict(id='c03-silent-variance-mean-times-sum', prop='C03', kind='silent', file='scared/distinguishers/cpa.py',
      old="        common_1 = _np.sqrt(self.ex2 - self.processed_traces * ((self.ex / self.processed_traces)**2))\n", new="        mean_x = self.ex / self.processed_traces\n        common_1 = _np.sqrt(self.ex2 - self.processed_traces * mean_x * mean_x)\n"),
 dict(id='c03-alt-sigma-divided-first', prop='C03', expect='C03-D6', file='scared/distinguishers/cpa.py',
      old="        sigma_traces = _np.sqrt(self.processed_traces * self.ex2 - (self.ex) ** 2)\n", new="        sigma_traces = _np.sqrt(self.processed_traces * self.ex2 - (self.ex ** 2 / self.processed_traces) * self.processed_traces)\n"),
 dict(id='c03-sqrt-of-product-of-variances', prop='C03', expect='C03-D5', file='scared/distinguishers/cpa.py',
      edits=[('scared/distinguishers/cpa.py', "        common_1 = _np.sqrt(self.ex2 - self.processed_traces * ((self.ex / self.processed_traces)**2))\n        common_2 = _np.sqrt(self.ey2 - self.processed_traces * ((self.ey / self.processed_traces)**2))\n",
              "        common_1 = self.ex2 - self.processed_traces * ((self.ex / self.processed_traces)**2)\n        common_2 = self.ey2 - self.processed_traces * ((self.ey / self.processed_traces)**2)\n"),
             ('scared/distinguishers/cpa.py', "/ (common_1 * com_2)\n", "/ _np.sqrt(common_1 * com_2)\n")]),
]

VARIANTS += [
 dict(id='c03-dpa-masked-division-keeps-zero', prop='C03', expect='C03-D2', file='scared/distinguishers/dpa.py', old='        normalized_ones = (self.accumulator_ones.swapaxes(0, 1) / self.processed_ones).swapaxes(0, 1)\n',
      new="        normalized_ones = _np.zeros_like(self.accumulator_ones, dtype='float64')\n        _np.divide(self.accumulator_ones, self.processed_ones[:, None], out=normalized_ones, where=self.processed_ones[:, None] > 0)\n"),
]
