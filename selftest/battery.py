"""Checker validation battery (DESIGN.md section 6).

Each variant is a scratch copy of /repo's *current* scared/ package with one edit (exact, unique substring
replacement; a vanished anchor is reported as SKIPPED, never as a failure of the repository).  `fires` variants
break exactly one instance of a rule and must be reported with that rule; `silent` variants preserve behaviour
and must not be reported.  Scratch copies live under a mkdtemp directory and are removed immediately.

usage: python -m selftest.battery [PROP|all] [-j N] [-v]
A battery failure is SELFTEST-FAILED (exit 2): it says the checker is wrong, never that the repository is.
"""
import importlib
import multiprocessing
import os
import shutil
import sys
import tempfile

HERE = os.path.dirname(os.path.abspath(__file__))
sys.path.insert(0, os.path.dirname(HERE))


def load_variants():
    out = []
    for fn in sorted(os.listdir(HERE)):
        if fn.startswith('v_') and fn.endswith('.py'):
            m = importlib.import_module('selftest.' + fn[:-3])
            for v in m.VARIANTS:
                v = dict(v)
                v.setdefault('kind', 'fires')
                out.append(v)
    out.extend(seed_variants())
    out.extend(refactoring_variants())
    ids = [v['id'] for v in out]
    dup = {i for i in ids if ids.count(i) > 1}
    if dup:
        raise SystemExit(f'duplicate variant ids {sorted(dup)}')
    return out


def seed_variants():
    """the seeded defects kept under /verif/seeded (independent sub-agents): each valid seed must be reported by the check of
    its own property (or, where recorded as such, by the neighbouring property that catches it)"""
    import json
    out = []
    sd = os.path.join(os.path.dirname(HERE), 'seeded')
    if not os.path.isdir(sd):
        return out
    for sid in sorted(os.listdir(sd)):
        mp, pp = os.path.join(sd, sid, 'meta.json'), os.path.join(sd, sid, 'patch.diff')
        if not (os.path.exists(mp) and os.path.exists(pp)):
            continue
        m = json.load(open(mp))
        if not m.get('valid'):
            continue
        props = [m['property']] if m.get('own_property_now', m.get('detected_by_own_property')) else list(m.get('detected_by_now', m.get('detected_by', [])))[:1]
        for p in props:
            out.append(dict(id=f'seed-{sid}-{p}', prop=p, kind='fires', expect=p, patch=pp))
    return out


def refactoring_variants():
    """behaviour-preserving refactorings written by independent sub-agents (selftest/refactorings/<id>/patch.diff, notes.md
    starting with `# <property> - title`): the property's check must stay silent on each of them"""
    import re
    out = []
    rd = os.path.join(HERE, 'refactorings')
    if not os.path.isdir(rd):
        return out
    for rid in sorted(os.listdir(rd)):
        pp, np_ = os.path.join(rd, rid, 'patch.diff'), os.path.join(rd, rid, 'notes.md')
        if not os.path.exists(pp):
            continue
        props = []
        if os.path.exists(np_):
            props = re.findall(r'C\d\d', open(np_).readline())
        extra = os.path.join(rd, rid, 'props.txt')
        if os.path.exists(extra):
            props += open(extra).read().split()
        gap_f = os.path.join(rd, rid, 'undecided.txt')
        gaps = set(open(gap_f).read().split()) if os.path.exists(gap_f) else set()
        for p in sorted(set(props) | gaps):
            # a recorded robustness gap: the check may answer "undecided" (exit 2) on this shape, never "violation"
            out.append(dict(id=f'ref-{rid}-{p}', prop=p, kind='silent', patch=pp, gap=p in gaps))
    return out


def apply_edits(root, edits):
    for rel, old, new in edits:
        p = os.path.join(root, rel)
        if not os.path.exists(p):
            return f'file {rel} missing'
        s = open(p).read()
        if s.count(old) != 1:
            return f'anchor occurs {s.count(old)} times in {rel}: {old[:50]!r}'
        open(p, 'w').write(s.replace(old, new))
    return None


def run_variant(v):
    from sa import main, report
    repo = os.environ.get('SCARED_REPO', '/repo')
    tmp = tempfile.mkdtemp(prefix='scared-variant-')
    try:
        shutil.copytree(os.path.join(repo, 'scared'), os.path.join(tmp, 'scared'),
                        ignore=shutil.ignore_patterns('__pycache__'))
        if v.get('patch'):
            import subprocess
            r = subprocess.run(['git', 'apply', v['patch']], cwd=tmp, stdout=subprocess.PIPE, stderr=subprocess.STDOUT, text=True)
            if r.returncode != 0:
                return (v['id'], 'SKIPPED', 'seed patch no longer applies: ' + r.stdout.strip()[:120])
            edits = []
        else:
            if v.get('base'):
                # a mutant of a refactored shape: the behaviour-preserving refactoring first, the edit on top of it
                import subprocess
                r = subprocess.run(['git', 'apply', os.path.join('/verif/selftest/refactorings', v['base'], 'patch.diff')], cwd=tmp, stdout=subprocess.PIPE, stderr=subprocess.STDOUT, text=True)
                if r.returncode != 0:
                    return (v['id'], 'SKIPPED', 'base refactoring no longer applies: ' + r.stdout.strip()[:120])
            edits = v.get('edits') or [(v['file'], v['old'], v['new'])]
            err = apply_edits(tmp, edits)
            if err:
                return (v['id'], 'SKIPPED', err)
        # the variant must still be valid Python
        import ast
        for rel, _, _ in edits:
            try:
                ast.parse(open(os.path.join(tmp, rel)).read())
            except SyntaxError as e:
                return (v['id'], 'BROKEN-VARIANT', f'does not parse: {e}')
        ctx = main.run_property(v['prop'], 'quick', 0, repo=tmp)
        known = {(k['rule'], k['construct']) for k in report.load_known().get('open', []) if k.get('property') == v['prop']}
        viol = [o for o in ctx.obs if o.status == report.VIOLATED and (o.rule, o.construct) not in known]
        und = [o for o in ctx.obs if o.status == report.UNDECIDED]
        floor_fail = [f for f in ctx.floors if f[1] < f[2]]
        rules = sorted({o.rule for o in viol})
        if v['kind'] == 'fires':
            want = v.get('expect')
            if viol and (want is None or any(r.startswith(want) for r in rules)):
                needle = v.get('names')
                if needle and not any(needle in (o.construct + ' ' + o.detail) for o in viol):
                    return (v['id'], 'FAIL', f'fired {rules} but no report names {needle!r}')
                return (v['id'], 'ok', f'fired {rules}')
            if v.get('allow_undecided') and (und or floor_fail):
                return (v['id'], 'ok', 'undecided (exit 2) as allowed')
            return (v['id'], 'FAIL', f'expected {want}, got violations={rules} undecided={[o.rule for o in und][:3]} floors={floor_fail}')
        else:
            if v.get('gap') and not viol:
                return (v['id'], 'ok', 'no violation (undecided: recorded robustness gap)' if (und or floor_fail) else 'silent (the recorded gap is closed)')
            if viol or und or floor_fail:
                o = (viol + und)[0] if (viol + und) else None
                return (v['id'], 'FAIL', f'silent variant reported: {o.rule + " " + o.construct + ": " + o.detail if o else floor_fail}')
            return (v['id'], 'ok', 'silent')
    except Exception as e:   # noqa
        return (v['id'], 'FAIL', f'crash {type(e).__name__}: {e}')
    finally:
        shutil.rmtree(tmp, ignore_errors=True)


def run(props=None, jobs=16, verbose=False):
    vs = [v for v in load_variants() if props is None or v['prop'] in props]
    if not vs:
        print('selftest: no variants for', props)
        return 0
    with multiprocessing.Pool(min(jobs, len(vs))) as pool:
        res = pool.map(run_variant, vs, chunksize=1)
    bad = [r for r in res if r[1] in ('FAIL', 'BROKEN-VARIANT')]
    skipped = [r for r in res if r[1] == 'SKIPPED']
    for r in res:
        if verbose or r[1] != 'ok':
            print(f'  variant {r[0]}: {r[1]} {r[2]}')
    print(f'selftest: {len(res)} variants, {len(res) - len(bad) - len(skipped)} behave as expected, '
          f'{len(skipped)} skipped (anchor gone), {len(bad)} wrong')
    if bad:
        print('SELFTEST-FAILED ' + ' '.join(r[0] for r in bad))
        return 2
    return 0


def run_for(prop):
    return run({prop})


if __name__ == '__main__':
    args = sys.argv[1:]
    verbose = '-v' in args
    args = [a for a in args if a != '-v']
    jobs = 16
    if '-j' in args:
        i = args.index('-j')
        jobs = int(args[i + 1])
        del args[i:i + 2]
    props = None if (not args or args[0] == 'all') else {a.upper() for a in args}
    sys.exit(run(props, jobs, verbose))
