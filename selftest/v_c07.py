AE = 'scared/aes/selection_functions/encrypt.py'
AD = 'scared/aes/selection_functions/decrypt.py'
DE = 'scared/des/selection_functions/encrypt.py'
DD = 'scared/des/selection_functions/decrypt.py'
B = 'scared/selection_functions/base.py'
FSB = """            _sub_bytes,
            expected_key_function=_first_key,"""
LSB = """            _inv_sub_bytes,
            expected_key_function=_last_key,"""
VARIANTS = [
 dict(id='c07-aes-first-sb-last-key', prop='C07', file=AE, expect='C07-D1', names='FirstSubBytes', old=FSB, new=FSB.replace('_first_key', '_last_key')),
 dict(id='c07-aes-last-sb-forward-sbox', prop='C07', file=AE, expect='C07-D1', names='LastSubBytes', old=LSB, new=LSB.replace('_inv_sub_bytes', '_sub_bytes')),
 dict(id='c07-aes-last-key-index', prop='C07', file=AE, expect='C07-D1', old="def _last_key(key):\n    return aes.key_schedule(key)[-1]", new="def _last_key(key):\n    return aes.key_schedule(key)[-2]"),
 dict(id='c07-aes-first-key-index', prop='C07', file=AE, expect='C07-D1', old="def _first_key(key):\n    return aes.key_schedule(key)[0]", new="def _first_key(key):\n    return aes.key_schedule(key)[1]"),
 dict(id='c07-aes-sub-bytes-term', prop='C07', file=AE, expect='C07-D1', old="    return aes.sub_bytes(_add_round_key(data=data, guesses=guesses))", new="    return aes.sub_bytes(aes.shift_rows(_add_round_key(data=data, guesses=guesses)))"),
 dict(id='c07-aes-delta-inv-shift', prop='C07', file=AE, expect='C07-D1', old="        aes.shift_rows(data),\n", new="        aes.inv_shift_rows(data),\n"),
 dict(id='c07-aes-delta-forward-sbox', prop='C07', file=AE, expect='C07-D1', old="        aes.inv_sub_bytes(\n            _add_round_key(data=data, guesses=guesses)\n        ).swapaxes(0, 1)", new="        aes.sub_bytes(\n            _add_round_key(data=data, guesses=guesses)\n        ).swapaxes(0, 1)"),
 dict(id='c07-aes-delta-missing-swap', prop='C07', file=AE, expect='C07-D2', old="            _add_round_key(data=data, guesses=guesses)\n        ).swapaxes(0, 1)\n    ).swapaxes(0, 1)", new="            _add_round_key(data=data, guesses=guesses)\n        )\n    )"),
 dict(id='c07-aes-ark-no-swap', prop='C07', file=AE, expect='C07-D2', old="        res[i] = _np.bitwise_xor(data, g)\n    return res.swapaxes(0, 1)", new="        res[i] = _np.bitwise_xor(data, g)\n    return res"),
 dict(id='c07-aes-ark-swap-12', prop='C07', file=AE, expect='C07-D2', old="        res[i] = _np.bitwise_xor(data, g)\n    return res.swapaxes(0, 1)", new="        res[i] = _np.bitwise_xor(data, g)\n    return res.swapaxes(0, 2)"),
 dict(id='c07-aes-ark-reversed-guesses', prop='C07', file=AE, expect='C07-D2', old="    for i, g in enumerate(guesses):\n        res[i] = _np.bitwise_xor(data, g)", new="    for i, g in enumerate(guesses[::-1]):\n        res[i] = _np.bitwise_xor(data, g)"),
 dict(id='c07-aes-ark-sorted-guesses', prop='C07', file=AE, expect='C07-D2', old="    for i, g in enumerate(guesses):\n        res[i] = _np.bitwise_xor(data, g)", new="    for i, g in enumerate(sorted(guesses)):\n        res[i] = _np.bitwise_xor(data, g)"),
 dict(id='c07-aes-ark-index-as-guess', prop='C07', file=AE, expect='C07', old="        res[i] = _np.bitwise_xor(data, g)", new="        res[i] = _np.bitwise_xor(data, i)"),
 dict(id='c07-aes-ark-store-by-value', prop='C07', file=AE, expect='C07-D2', old="        res[i] = _np.bitwise_xor(data, g)", new="        res[g % len(guesses)] = _np.bitwise_xor(data, g)"),
 dict(id='c07-aes-tag-swapped', prop='C07', file=AE, expect='C07-D1', names='LastAddRoundKey', old="            words=words, guesses=guesses,\n            target_tag=ciphertext_tag,\n            key_tag=key_tag\n        )\n\n\nclass FirstSubBytes", new="            words=words, guesses=guesses,\n            target_tag=key_tag,\n            key_tag=key_tag\n        )\n\n\nclass FirstSubBytes"),
 dict(id='c07-aes-default-tag', prop='C07', file=AE, expect='C07-D1', old="class LastSubBytes:", new="class LastSubBytes:  # x", edits=[(AE, "    def __new__(cls, guesses=_np.arange(256, dtype='uint8'), words=None, ciphertext_tag='ciphertext', key_tag='key'):\n        return _decorated_selection_function(\n            _AttackSelectionFunctionWrapped,\n            _inv_sub_bytes,", "    def __new__(cls, guesses=_np.arange(256, dtype='uint8'), words=None, ciphertext_tag='plaintext', key_tag='key'):\n        return _decorated_selection_function(\n            _AttackSelectionFunctionWrapped,\n            _inv_sub_bytes,")]),
 dict(id='c07-aes-decrypt-not-mirrored', prop='C07', file=AD, expect='C07-D1', old="FirstSubBytes = encrypt.LastSubBytes\n", new="FirstSubBytes = encrypt.FirstSubBytes\n"),
 dict(id='c07-aes-decrypt-wrong-kind', prop='C07', file=AD, expect='C07-D1', old="LastAddRoundKey = encrypt.FirstAddRoundKey\n", new="LastAddRoundKey = encrypt.FirstSubBytes\n"),
 dict(id='c07-des-step', prop='C07', file=DE, expect='C07-D1', names='Sboxes', old="    return _des_function(data, guesses, 0, des.Steps.SBOXES)", new="    return _des_function(data, guesses, 0, des.Steps.PERMUTATION_P)"),
 dict(id='c07-des-feistel-step', prop='C07', file=DE, expect='C07-D1', names='FeistelR', old="    return _des_function(data, guesses, 0, des.Steps.INV_PERMUTATION_P_RIGHT)", new="    return _des_function(data, guesses, 0, des.Steps.INV_PERMUTATION_P_DELTA_RIGHT)"),
 dict(id='c07-des-round', prop='C07', file=DE, expect='C07-D1', old="    return _des_function(data, guesses, 0, des.Steps.ADD_ROUND_KEY)", new="    return _des_function(data, guesses, 1, des.Steps.ADD_ROUND_KEY)"),
 dict(id='c07-des-key-length', prop='C07', file=DE, expect='C07-D1', old="_np.zeros((128), dtype=_np.uint8)", new="_np.zeros((8), dtype=_np.uint8)"),
 dict(id='c07-des-key-not-guess', prop='C07', file=DE, expect='C07', old="_np.bitwise_xor(_np.zeros((128), dtype=_np.uint8), guess)", new="_np.bitwise_xor(_np.zeros((128), dtype=_np.uint8), i)"),
 dict(id='c07-des-decrypt-call', prop='C07', file=DE, expect='C07-D1', old="        result[i] = des.encrypt(data, current_expanded_key_guess,", new="        result[i] = des.decrypt(data, current_expanded_key_guess,"),
 dict(id='c07-des-last-key', prop='C07', file=DE, expect='C07-D1', old="def _last_key(key):\n    return des.key_schedule(key)[-1]", new="def _last_key(key):\n    return des.key_schedule(key)[0]"),
 dict(id='c07-des-delta-first-key', prop='C07', file=DE, expect='C07-D1', names='DeltaRFirstRounds', old="            _delta_last_rounds,\n            expected_key_function=_first_key,", new="            _delta_last_rounds,\n            expected_key_function=_last_key,"),
 dict(id='c07-des-decrypt-mirror', prop='C07', file=DD, expect='C07-D1', old="DeltaRLastRounds = encrypt.DeltaRFirstRounds\n", new="DeltaRLastRounds = encrypt.DeltaRLastRounds\n"),
 dict(id='c07-des-no-swap', prop='C07', file=DE, expect='C07-D2', old="    return result.swapaxes(0, 1)", new="    return result.swapaxes(1, 2)"),
 dict(id='c07-base-words-axis', prop='C07', file=B, expect='C07-D2', old="values = values.swapaxes(0, -1)[self.words].swapaxes(0, -1)", new="values = values.swapaxes(0, 1)[self.words].swapaxes(0, 1)"),
 dict(id='c07-base-words-no-swap-back', prop='C07', file=B, expect='C07-D2', old="values = values.swapaxes(0, -1)[self.words].swapaxes(0, -1)", new="values = values.swapaxes(0, -1)[self.words].swapaxes(0, 1)"),
 dict(id='c07-base-tag-mapping', prop='C07', file=B, expect='C07-D2', old="        kwargs[self.target_name] = kwargs[self.target_tag]", new="        kwargs[self.target_name] = kwargs[self.key_tag]"),
 dict(id='c07-base-key-mapping', prop='C07', file=B, expect='C07-D2', old="        kwargs[self.key_name] = kwargs[self.key_tag]", new="        kwargs[self.key_name] = kwargs[self.target_tag]"),
 dict(id='c07-base-target-name-default', prop='C07', file=B, expect='C07-D2', old="target_name='data', key_name='key'):", new="target_name='key', key_name='data'):"),
 dict(id='c07-base-attr-swap', prop='C07', file=B, expect='C07-D2', old="        self.target_tag = target_tag\n", new="        self.target_tag = key_tag\n"),
 dict(id='c07-base-guesses-sorted', prop='C07', file=B, expect='C07-D2', old="        self._base_kwargs['guesses'] = guesses\n", new="        self._base_kwargs['guesses'] = _np.unique(guesses)\n"),
 dict(id='c07-base-words-sorted', prop='C07', file=B, expect='C07-D2', old="            words = _np.array(words, dtype='uint8')\n", new="            words = _np.sort(_np.array(words, dtype='uint8'))\n"),
 dict(id='c07-base-result-modified', prop='C07', file=B, expect='C07-D2', old="        values = self._function(**self._base_kwargs)\n", new="        values = self._function(**self._base_kwargs)\n        values = values.astype('uint8')\n"),
 # behaviour preserving
 dict(id='c07-silent-xor-operator', prop='C07', kind='silent', file=AE, old="        res[i] = _np.bitwise_xor(data, g)", new="        res[i] = data ^ g"),
 dict(id='c07-silent-renamed-loop', prop='C07', kind='silent', file=AE, old="    for i, g in enumerate(guesses):\n        res[i] = _np.bitwise_xor(data, g)", new="    for row, guess_value in enumerate(guesses):\n        res[row] = _np.bitwise_xor(guess_value, data)"),
 dict(id='c07-silent-positional', prop='C07', kind='silent', file=AE, old="    return aes.sub_bytes(_add_round_key(data=data, guesses=guesses))", new="    ark = _add_round_key(data, guesses)\n    return aes.sub_bytes(ark)"),
 dict(id='c07-silent-des-full', prop='C07', kind='silent', file=DE, old="_np.bitwise_xor(_np.zeros((128), dtype=_np.uint8), guess)", new="_np.full(128, guess, dtype=_np.uint8)"),
 dict(id='c07-silent-des-keywords', prop='C07', kind='silent', file=DE, old="    return _des_function(data, guesses, 0, des.Steps.SBOXES)", new="    return _des_function(data=data, guesses=guesses, at_round=0, after_step=des.Steps.SBOXES)"),
 dict(id='c07-silent-words-ellipsis', prop='C07', kind='silent', file=B, old="values = values.swapaxes(0, -1)[self.words].swapaxes(0, -1)", new="values = values[..., self.words]"),
 dict(id='c07-tag-mapping-setdefault', prop='C07', expect='C07-D2', file='scared/selection_functions/base.py', old="        kwargs[self.target_name] = kwargs[self.target_tag]\n", new="        kwargs.setdefault(self.target_name, kwargs[self.target_tag])\n"),
]

VARIANTS += [
 dict(id='c07-p5ref4-pipeline-words-on-first-axis', prop='C07', base='P5-REF4', expect='C07-D2', file='scared/selection_functions/base.py',
      old="            return values.swapaxes(0, -1)[self.words].swapaxes(0, -1)\n", new="            return values[self.words]\n"),
]

VARIANTS += [
 dict(id='c07-p5ref6-spec-table-wrong-key', prop='C07', base='P5-REF6', expect='C07-D1', file='scared/aes/selection_functions/encrypt.py',
      old="'LastSubBytes': _Target(function=_inv_sub_bytes, expected_key_function=_last_key),", new="'LastSubBytes': _Target(function=_inv_sub_bytes, expected_key_function=_first_key),"),
 dict(id='c07-p5ref6-spec-table-wrong-function', prop='C07', base='P5-REF6', expect='C07-D1', file='scared/aes/selection_functions/encrypt.py',
      old="'FirstSubBytes': _Target(function=_sub_bytes, expected_key_function=_first_key),", new="'FirstSubBytes': _Target(function=_inv_sub_bytes, expected_key_function=_first_key),"),
]

DES_LOOP = "    result = _np.empty((len(guesses), ) + data.shape, dtype='uint8')\n    data = data.astype('uint8')\n    for i, guess in enumerate(guesses):\n        # expanded key with every byte to current key guess on 6-bit word\n        current_expanded_key_guess = _np.bitwise_xor(_np.zeros((128), dtype=_np.uint8), guess)\n        result[i] = des.encrypt(data, current_expanded_key_guess, at_round=at_round, after_step=after_step)\n    return result.swapaxes(0, 1)\n"
VARIANTS += [
 dict(id='c07-des-stack-of-squeezed-results', prop='C07', expect='C07-D2', file='scared/des/selection_functions/encrypt.py', old=DES_LOOP,
      new="    result = []\n    data = data.astype('uint8')\n    for guess in guesses:\n        # expanded key with every byte to current key guess on 6-bit word\n        current_expanded_key_guess = _np.bitwise_xor(_np.zeros((128), dtype=_np.uint8), guess)\n        result.append(des.encrypt(data, current_expanded_key_guess, at_round=at_round, after_step=after_step))\n    return _np.stack(result, axis=1)\n"),
 dict(id='c07-des-array-of-squeezed-results', prop='C07', expect='C07-D2', file='scared/des/selection_functions/encrypt.py', old=DES_LOOP,
      new="    result = []\n    data = data.astype('uint8')\n    for guess in guesses:\n        # expanded key with every byte to current key guess on 6-bit word\n        current_expanded_key_guess = _np.bitwise_xor(_np.zeros((128), dtype=_np.uint8), guess)\n        result.append(des.encrypt(data, current_expanded_key_guess, at_round=at_round, after_step=after_step))\n    return _np.array(result).swapaxes(0, 1)\n"),
 dict(id='c07-silent-des-stack-of-reshaped-results', prop='C07', kind='silent', file='scared/des/selection_functions/encrypt.py', old=DES_LOOP,
      new="    result = []\n    data = data.astype('uint8')\n    for guess in guesses:\n        # expanded key with every byte to current key guess on 6-bit word\n        current_expanded_key_guess = _np.bitwise_xor(_np.zeros((128), dtype=_np.uint8), guess)\n        result.append(des.encrypt(data, current_expanded_key_guess, at_round=at_round, after_step=after_step).reshape(data.shape))\n    return _np.stack(result, axis=1)\n"),
 dict(id='c07-des-stack-on-wrong-axis', prop='C07', expect='C07-D2', file='scared/des/selection_functions/encrypt.py', old=DES_LOOP,
      new="    result = []\n    data = data.astype('uint8')\n    for guess in guesses:\n        # expanded key with every byte to current key guess on 6-bit word\n        current_expanded_key_guess = _np.bitwise_xor(_np.zeros((128), dtype=_np.uint8), guess)\n        result.append(des.encrypt(data, current_expanded_key_guess, at_round=at_round, after_step=after_step).reshape(data.shape))\n    return _np.stack(result, axis=0)\n"),
]
