FO = 'scared/preprocesses/first_order.py'
HB = 'scared/preprocesses/high_order/_base.py'
HS = 'scared/preprocesses/high_order/standard.py'
TF = 'scared/preprocesses/high_order/time_freq.py'
PB = 'scared/preprocesses/_base.py'
VARIANTS = [
 dict(id='c18-standardizeon-unpromoted', prop='C18', file=FO, expect='C18-D1',
      old="            return (traces.astype(precision) - _mean) / _std\n", new="            return (traces - _mean) / _std\n"),
 dict(id='c18-square-no-dtype', prop='C18', file=FO, expect='C18-D1',
      old="    return _np.square(traces, dtype=_np.result_type(traces.dtype, 'float32'))\n", new="    return _np.square(traces)\n"),
 dict(id='c18-centeron-unpromoted', prop='C18', file=FO, expect='C18-D1',
      old="        return _center(traces.astype(_np.result_type(traces.dtype, self.precision)), self.mean)\n", new="        return _center(traces, self.mean) if self.mean is not None else _center(traces.astype(_np.result_type(traces.dtype, self.precision)), None)\n"),
 dict(id='c18-two-frames-chunk2-raw', prop='C18', file=HB, expect='C18-D1',
      old="        chunk_1 = traces[:, self.frame_1].astype(dtype)\n        chunk_2 = traces[:, self.frame_2].astype(dtype)\n", new="        chunk_1 = traces[:, self.frame_1]\n        chunk_2 = traces[:, self.frame_2]\n"),
 dict(id='c18-max-dtype-again', prop='C18', file=HB, expect='C18-D2',
      old="    def __call__(self, traces):\n        dtype = _np.result_type(traces.dtype, self.precision)\n        frame_1 = ...", new="    def __call__(self, traces):\n        dtype = max(traces.dtype, self.precision)\n        frame_1 = ..."),
 dict(id='c18-topower-max', prop='C18', file=FO, expect='C18-D',
      old="        return _np.power(traces, self.power, dtype=_np.result_type(traces.dtype, self.precision))\n", new="        return _np.power(traces, self.power, dtype=max(traces.dtype, self.precision))\n"),
 dict(id='c18-square-centers-batch', prop='C18', file=FO, expect='C18-D3',
      old="    return _np.square(traces, dtype=_np.result_type(traces.dtype, 'float32'))\n", new="    return _np.square(traces - traces.mean(axis=0), dtype=_np.result_type(traces.dtype, 'float32'))\n"),
 dict(id='c18-product-normalised-by-batch-max', prop='C18', file=HB, expect='C18-D3',
      old="        chunk_1 = chunk_2 = traces[:, self.frame_1].astype(dtype)\n", new="        chunk_1 = chunk_2 = traces[:, self.frame_1].astype(dtype) / max(1, _np.abs(traces).max())\n"),
 dict(id='c18-fft-axis0', prop='C18', file=TF, expect='C18-D3',
      old="def _fht(el):\n    f = _np.fft.rfft(el, axis=1)\n", new="def _fht(el):\n    f = _np.fft.rfft(el, axis=0) if el.shape[0] == el.shape[1] else _np.fft.rfft(el, axis=1)\n"),
 dict(id='c18-rows-reversed', prop='C18', file=FO, expect='C18-D3',
      old="    return _np.unpackbits(traces.astype('uint8'), axis=1)\n", new="    return _np.unpackbits(traces[::-1].astype('uint8'), axis=1)\n"),
 dict(id='c18-decorator-no-row-check', prop='C18', file=PB, expect='C18-D4',
      old="        if result.shape[0] != traces.shape[0]:\n            raise PreprocessError(f'Preprocess {function} modifies number of traces dimension.')\n", new=""),
 dict(id='c18-silent-promote-types', prop='C18', kind='silent', file=FO,
      old="    return _np.square(traces, dtype=_np.result_type(traces.dtype, 'float32'))\n", new="    return _np.square(traces, dtype=_np.promote_types(traces.dtype, 'float32'))\n"),
 dict(id='c18-silent-astype-then-square', prop='C18', kind='silent', file=FO,
      old="    return _np.square(traces, dtype=_np.result_type(traces.dtype, 'float32'))\n", new="    promoted = traces.astype(_np.result_type(traces.dtype, 'float32'))\n    return promoted * promoted\n"),
]
