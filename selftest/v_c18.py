FO = 'scared/preprocesses/first_order.py'
HB = 'scared/preprocesses/high_order/_base.py'
HS = 'scared/preprocesses/high_order/standard.py'
TF = 'scared/preprocesses/high_order/time_freq.py'
PB = 'scared/preprocesses/_base.py'
VARIANTS = [
 dict(id='c18-standardizeon-unpromoted', prop='C18', file=FO, expect='C18-D1',
      old="            return (traces.astype(precision) - _mean) / _std\n", new="            return (traces - _mean) / _std\n"),
 dict(id='c18-square-no-dtype', prop='C18', file=FO, expect='C18-D1',
      old="    return _np.square(traces, dtype=_np.result_type(traces.dtype, 'float32'))\n", new="    return _np.square(traces)\n"),
 dict(id='c18-centeron-unpromoted', prop='C18', file=FO, expect='C18-D1',
      old="        return _center(traces.astype(_np.result_type(traces.dtype, self.precision)), self.mean)\n", new="        return _center(traces, self.mean) if self.mean is not None else _center(traces.astype(_np.result_type(traces.dtype, self.precision)), None)\n"),
 dict(id='c18-two-frames-chunk2-raw', prop='C18', file=HB, expect='C18-D1',
      old="        chunk_1 = traces[:, self.frame_1].astype(dtype)\n        chunk_2 = traces[:, self.frame_2].astype(dtype)\n", new="        chunk_1 = traces[:, self.frame_1]\n        chunk_2 = traces[:, self.frame_2]\n"),
 dict(id='c18-max-dtype-again', prop='C18', file=HB, expect='C18-D2',
      old="    def __call__(self, traces):\n        dtype = _np.result_type(traces.dtype, self.precision)\n        frame_1 = ...", new="    def __call__(self, traces):\n        dtype = max(traces.dtype, self.precision)\n        frame_1 = ..."),
 dict(id='c18-topower-max', prop='C18', file=FO, expect='C18-D',
      old="        return _np.power(traces, self.power, dtype=_np.result_type(traces.dtype, self.precision))\n", new="        return _np.power(traces, self.power, dtype=max(traces.dtype, self.precision))\n"),
 dict(id='c18-square-centers-batch', prop='C18', file=FO, expect='C18-D3',
      old="    return _np.square(traces, dtype=_np.result_type(traces.dtype, 'float32'))\n", new="    return _np.square(traces - traces.mean(axis=0), dtype=_np.result_type(traces.dtype, 'float32'))\n"),
 dict(id='c18-product-normalised-by-batch-max', prop='C18', file=HB, expect='C18-D3',
      old="        chunk_1 = chunk_2 = traces[:, self.frame_1].astype(dtype)\n", new="        chunk_1 = chunk_2 = traces[:, self.frame_1].astype(dtype) / max(1, _np.abs(traces).max())\n"),
 dict(id='c18-fft-axis0', prop='C18', file=TF, expect='C18-D3',
      old="def _fht(el):\n    f = _np.fft.rfft(el, axis=1)\n", new="def _fht(el):\n    f = _np.fft.rfft(el, axis=0) if el.shape[0] == el.shape[1] else _np.fft.rfft(el, axis=1)\n"),
 dict(id='c18-rows-reversed', prop='C18', file=FO, expect='C18-D3',
      old="    return _np.unpackbits(traces.astype('uint8'), axis=1)\n", new="    return _np.unpackbits(traces[::-1].astype('uint8'), axis=1)\n"),
 dict(id='c18-decorator-no-row-check', prop='C18', file=PB, expect='C18-D4',
      old="        if result.shape[0] != traces.shape[0]:\n            raise PreprocessError(f'Preprocess {function} modifies number of traces dimension.')\n", new=""),
 dict(id='c18-silent-promote-types', prop='C18', kind='silent', file=FO,
      old="    return _np.square(traces, dtype=_np.result_type(traces.dtype, 'float32'))\n", new="    return _np.square(traces, dtype=_np.promote_types(traces.dtype, 'float32'))\n"),
 dict(id='c18-silent-astype-then-square', prop='C18', kind='silent', file=FO,
      old="    return _np.square(traces, dtype=_np.result_type(traces.dtype, 'float32'))\n", new="    promoted = traces.astype(_np.result_type(traces.dtype, 'float32'))\n    return promoted * promoted\n"),
 dict(id='c18-frame-contiguity-normalised', prop='C18', file='scared/preprocesses/high_order/_base.py', expect='C18-D5',
      old="        else:\n            setattr(self, name, frame)\n", new="        else:\n            if len(frame) > 1 and int(frame[-1]) - int(frame[0]) + 1 == len(frame):\n                frame = range(int(frame[0]), int(frame[-1]) + 1)\n            setattr(self, name, frame)\n"),
 dict(id='c18-frame-sorted', prop='C18', file='scared/preprocesses/high_order/_base.py', expect='C18-D5',
      old="        else:\n            setattr(self, name, frame)\n", new="        else:\n            setattr(self, name, sorted(frame) if frame is not None else None)\n"),
 dict(id='c18-silent-frame-copy', prop='C18', kind='silent', file='scared/preprocesses/high_order/_base.py',
      old="        else:\n            setattr(self, name, frame)\n", new="        elif frame is None:\n            setattr(self, name, frame)\n        else:\n            setattr(self, name, list(frame))\n"),
 dict(id='c18-int-frame-range', prop='C18', file='scared/preprocesses/high_order/_base.py', expect='C18-D5',
      old="            setattr(self, name, [frame])\n", new="            setattr(self, name, range(frame))\n"),
 dict(id='c18-standardize-by-variance', prop='C18', expect='C18-D9', file='scared/preprocesses/first_order.py', old="    return center(traces) / _np.nanstd(traces, axis=0, dtype=_np.result_type(traces.dtype, 'float32'))\n", new="    return center(traces) / _np.nanvar(traces, axis=0, dtype=_np.result_type(traces.dtype, 'float32'))\n"),
 dict(id='c18-distance-window-one-short', prop='C18', expect='C18-D8', file='scared/preprocesses/high_order/_base.py', old="            end = min(i + self.distance + 1, chunk_2.shape[1])\n", new="            end = min(i + self.distance, chunk_2.shape[1])\n"),
 dict(id='c18-one-frame-skips-diagonal', prop='C18', expect='C18-D8', file='scared/preprocesses/high_order/_base.py', old="                tmp2 = chunk_2[:, i:]\n", new="                tmp2 = chunk_2[:, i + 1:]\n"),
 dict(id='c18-result-buffer-reused', prop='C18', expect='C18-D10', file='scared/preprocesses/high_order/_base.py',
      edits=[('scared/preprocesses/high_order/_base.py', "class _CombinationOfTwoFrames(_BaseCombination):\n", "class _CombinationOfTwoFrames(_BaseCombination):\n\n    _result = None\n"),
             ('scared/preprocesses/high_order/_base.py', "        result = _np.empty((traces.shape[0], result_size), dtype=dtype)\n\n        cnt = 0\n        for i in range(chunk_1.shape[1]):\n            if self._frame_2_was_none:",
              "        shape = (traces.shape[0], result_size)\n        if self._result is None or self._result.shape != shape or self._result.dtype != dtype:\n            self._result = _np.empty(shape, dtype=dtype)\n        result = self._result\n\n        cnt = 0\n        for i in range(chunk_1.shape[1]):\n            if self._frame_2_was_none:")]),
 dict(id='c18-factory-binds-operation-on-class', prop='C18', expect='C18-S1', file='scared/preprocesses/high_order/_base.py',
      old="        res = _CombinationOfTwoFrames(frame_1=frame_1, frame_2=frame_2, precision=precision)\n    res._operation = operation\n    return res\n",
      new="        res = _CombinationOfTwoFrames(frame_1=frame_1, frame_2=frame_2, precision=precision)\n    _CombinationOfTwoFrames._operation = staticmethod(operation)\n    res._operation = operation if distance is not None else res._operation\n    return res\n"),
 dict(id='c18-none-frame-by-truthiness', prop='C18', expect='C18-D12', file='scared/preprocesses/high_order/time_freq.py',
      old="        if (frame_1 is None) or (frame_2 is None):\n            frame_1 = frame_2 = frame_2 if frame_1 is None else frame_1\n        return frame_1, frame_2\n", new="        return frame_1 or frame_2, frame_2 or frame_1\n"),
]

VARIANTS += [
 dict(id='c18-p5ref3-with-manager-sign', prop='C18', base='P5-REF3', expect='C18-D9', file='scared/preprocesses/first_order.py',
      old="        return traces - mean\n", new="        return traces + mean\n"),
]

VARIANTS += [
 dict(id='c18-p5ref1-plan-triangular-from-next', prop='C18', base='P5-REF1', expect='C18-D8', file='scared/preprocesses/high_order/_base.py',
      old="            spans = [(i, width_2) for i in range(width_1)]\n", new="            spans = [(i + 1, width_2) for i in range(width_1)]\n", allow_undecided=True),
 dict(id='c18-p5ref1-plan-operands-swapped', prop='C18', base='P5-REF1', expect='C18', file='scared/preprocesses/high_order/_base.py',
      old="self._operation(chunk_1[:, i], chunk_2[:, first: last].T).T", new="self._operation(chunk_2[:, first: last].T, chunk_1[:, i]).T"),
]

VARIANTS += [
 dict(id='c18-result-buffer-kept-through-getattr', prop='C18', expect='C18-D10', file='scared/preprocesses/high_order/_base.py',
      old="        result = _np.empty((traces.shape[0], result_size), dtype=dtype)\n\n        cnt = 0\n        for i in range(chunk_1.shape[1]):\n",
      new="        result = getattr(self, '_buffer', None)\n        if result is None or result.shape != (traces.shape[0], result_size) or result.dtype != dtype:\n            result = _np.empty((traces.shape[0], result_size), dtype=dtype)\n            self._buffer = result\n\n        cnt = 0\n        for i in range(chunk_1.shape[1]):\n"),
 dict(id='c18-silent-getattr-of-a-flag', prop='C18', kind='silent', file='scared/preprocesses/high_order/_base.py',
      old="        result = _np.empty((traces.shape[0], result_size), dtype=dtype)\n\n        cnt = 0\n        for i in range(chunk_1.shape[1]):\n",
      new="        fill = getattr(self, '_fill', None)\n        result = _np.empty((traces.shape[0], result_size), dtype=dtype)\n        if fill is not None:\n            result[:] = fill\n\n        cnt = 0\n        for i in range(chunk_1.shape[1]):\n"),
]
