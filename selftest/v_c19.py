P = 'scared/signal_processing/peaks_detection.py'
MO = 'scared/signal_processing/moving_operators.py'
PD = 'scared/signal_processing/pattern_detection.py'
BA = 'scared/signal_processing/base.py'
VARIANTS = [
 dict(id='c19-peaks-sentinel-again', prop='C19', file=P, expect='C19-D1',
      old="            if data[maximas[i]] < data[maximas[p]]:\n                kept[i] = False\n                break\n            else:\n                kept[p] = False\n    return maximas[kept]\n",
      new="            if data[maximas[i]] < data[maximas[p]]:\n                kept[i] = False\n                maximas[i] = -1\n                break\n            else:\n                kept[p] = False\n    return maximas[kept]\n"),
 dict(id='c19-peaks-returns-kept-indexes', prop='C19', file=P, expect='C19-D1',
      old="    return maximas[kept]\n", new="    return _np.where(kept)[0]\n"),
 dict(id='c19-moving-var-no-cast', prop='C19', file=MO, expect='C19-D2',
      old="    _moving_argument_check(data, window_size, axis)\n    data = cast_array(data, 'float64')\n\n    m1 = moving_mean(data, window_size, axis)\n    m2 = moving_mean(data**2, window_size, axis)\n\n    return m2 - m1**2\n",
      new="    _moving_argument_check(data, window_size, axis)\n\n    m1 = moving_mean(data, window_size, axis)\n    m2 = moving_mean(data**2, window_size, axis)\n\n    return m2 - m1**2\n"),
 dict(id='c19-kurtosis-cast-float32', prop='C19', file=MO, expect='C19-D2',
      old="    # cast to avoid overflow during 'data**3' or 'data**4' operation\n    data = cast_array(data, 'float64')\n", new="    data = cast_array(data, 'float32')\n"),
 dict(id='c19-pattern-cast-dropped-for-pattern', prop='C19', file=PD, expect='C19-D2',
      old="    trace = cast_array(trace)\n    pattern = cast_array(pattern)\n    return trace, pattern\n", new="    trace = cast_array(trace)\n    return trace, pattern\n"),
 dict(id='c19-distance-uses-raw', prop='C19', file=PD, expect='C19-D2',
      old="    trace, pattern = _check_and_cast_args(trace, pattern)\n\n    tmp1 = moving_sum(trace**2, len(pattern)) + _np.sum(pattern**2)\n",
      new="    _check_and_cast_args(trace, pattern)\n\n    tmp1 = moving_sum(trace**2, len(pattern)) + _np.sum(pattern**2)\n"),
 dict(id='c19-pad-writes-input', prop='C19', file=BA, expect='C19-D3',
      old="    result = _np.zeros(target_shape, dtype=array.dtype) + pad_with\n    result[tuple(insert_here)] = array\n    return result\n",
      new="    if tuple(target_shape) == array.shape:\n        array[...] = array\n        return array\n    result = _np.zeros(target_shape, dtype=array.dtype) + pad_with\n    result[tuple(insert_here)] = array\n    return result\n"),
 dict(id='c19-moving-sum-inplace-cumsum', prop='C19', file=MO, expect='C19-D3',
      old="    ret = _np.cumsum(padded, axis=0)\n", new="    ret = _np.cumsum(data, axis=0, out=data)\n"),
 dict(id='c19-silent-kept-rename', prop='C19', kind='silent', file=P,
      old="    return maximas[kept]\n", new="    return maximas[kept == True]\n"),
 dict(id='c19-silent-astype', prop='C19', kind='silent', file=MO,
      old="    _moving_argument_check(data, window_size, axis)\n    data = cast_array(data, 'float64')\n\n    m1 = moving_mean(data, window_size, axis)\n    m2 = moving_mean(data**2, window_size, axis)\n\n    return m2 - m1**2\n",
      new="    _moving_argument_check(data, window_size, axis)\n    data = data.astype('float64')\n\n    m1 = moving_mean(data, window_size, axis)\n    m2 = moving_mean(data**2, window_size, axis)\n\n    return m2 - m1**2\n"),
]
